package sim

import (
	"bytes"
	"errors"
	"fmt"
	"math"
	"sort"
	"strconv"

	simdjson "github.com/minio/simdjson-go"
)

// Exposure battery: independent walkers that turn a ParsedJson into model values through
// different parts of the public API. Each walker is compared with the *model*, never with
// another walker. All of them run under recover and with a step cap.

// walkDsts are destination values handed to Iter.Root/Object/Array ("An optional destination can be given"). They are
// kept across walks of a run, one per nesting depth, the way a caller that avoids allocations keeps them across documents.
type walkDstCache struct {
	objs  []*simdjson.Object
	arrs  []*simdjson.Array
	root  simdjson.Iter
	reuse bool
}

var walkDsts = &walkDstCache{}

// findDsts are CheckFind's own destinations (it reads the values it finds through the W-adv helpers, which take theirs
// from walkDsts by their own depth count: one caller must not hand the same destination to two live uses).
var findDsts = &walkDstCache{}

func (d *walkDstCache) obj(depth int) *simdjson.Object {
	if !d.reuse {
		return nil
	}
	for len(d.objs) <= depth {
		d.objs = append(d.objs, &simdjson.Object{})
	}
	return d.objs[depth]
}

func (d *walkDstCache) arr(depth int) *simdjson.Array {
	if !d.reuse {
		return nil
	}
	for len(d.arrs) <= depth {
		d.arrs = append(d.arrs, &simdjson.Array{})
	}
	return d.arrs[depth]
}

type walkCtx struct {
	scalars int
	steps   int
	cap     int
	depth   int
	elems   *simdjson.Elements // reused destination of Object.Parse (documented: "An optional destination can be given")
}

var errStepCap = errors.New("walker exceeded its step cap (does not terminate)")

func newWalkCtx(pj *simdjson.ParsedJson) *walkCtx {
	return &walkCtx{cap: 8*len(pj.Tape) + 64}
}

func (w *walkCtx) tick() error {
	w.steps++
	if w.steps > w.cap {
		return errStepCap
	}
	return nil
}

// WalkPanic is returned when a walker panicked.
type WalkPanic struct {
	Val   interface{}
	Stack string
}

func (p *WalkPanic) Error() string { return fmt.Sprintf("panic: %v", p.Val) }

func safely(fn func() error) (err error) {
	defer func() {
		if r := recover(); r != nil {
			if _, ok := r.(tapeOverrun); ok {
				panic(r)
			}
			err = &WalkPanic{Val: r, Stack: repoFrames()}
		}
	}()
	return fn()
}

// ---- scalar -----------------------------------------------------------------------

func scalarOf(it *simdjson.Iter, t simdjson.Type) (*MV, error) {
	switch t {
	case simdjson.TypeNull:
		return mvNull(), nil
	case simdjson.TypeBool:
		b, err := it.Bool()
		return mvBool(b), err
	case simdjson.TypeInt:
		v, err := it.Int()
		return mvInt(v), err
	case simdjson.TypeUint:
		v, err := it.Uint()
		return mvUint(v), err
	case simdjson.TypeFloat:
		v, fl, err := it.FloatFlags()
		return &MV{K: KFloat, F: v, Ovf: fl.Contains(simdjson.FloatOverflowedInteger)}, err
	case simdjson.TypeString:
		b, err := it.StringBytes()
		if err != nil {
			return nil, err
		}
		return mvString(b), nil
	}
	return nil, fmt.Errorf("unexpected type %v for a scalar", t)
}

// ---- W-adv: Advance / Array.Iter / Object.NextElementBytes -------------------------------

func (w *walkCtx) advValue(it *simdjson.Iter, t simdjson.Type) (*MV, error) {
	if err := w.tick(); err != nil {
		return nil, err
	}
	w.depth++
	defer func() { w.depth-- }()
	switch t {
	case simdjson.TypeArray:
		arr, err := it.Array(walkDsts.arr(w.depth))
		if err != nil {
			return nil, err
		}
		m := &MV{K: KArray, Arr: []*MV{}}
		ai := arr.Iter()
		if ft := arr.FirstType(); ft != ai.PeekNext() {
			return nil, fmt.Errorf("Array.FirstType says %v, PeekNext on a fresh Array.Iter says %v", ft, ai.PeekNext())
		}
		for {
			announced := ai.PeekNext()
			if tg := ai.PeekNextTag(); simdjson.TagToType[tg] != announced {
				return nil, fmt.Errorf("PeekNextTag says %q, PeekNext says %v (array element #%d)", byte(tg), announced, len(m.Arr))
			}
			et := ai.Advance()
			if et != announced {
				// PeekNext announces what Advance is about to return
				return nil, fmt.Errorf("PeekNext announced %v, Advance then returned %v (array element #%d)", announced, et, len(m.Arr))
			}
			if et == simdjson.TypeNone {
				if ai.Type() != simdjson.TypeNone {
					return nil, fmt.Errorf("Advance returned no type at the end of an array but the iterator still reports %v", ai.Type())
				}
				break
			}
			v, err := w.advValue(&ai, et)
			if err != nil {
				return nil, err
			}
			m.Arr = append(m.Arr, v)
		}
		return m, nil
	case simdjson.TypeObject:
		obj, err := it.Object(walkDsts.obj(w.depth))
		if err != nil {
			return nil, err
		}
		m := &MV{K: KObject, Keys: [][]byte{}, Vals: []*MV{}}
		var e simdjson.Iter
		for {
			if err := w.tick(); err != nil {
				return nil, err
			}
			// NextElementBytes on even nesting levels, its string twin NextElement on odd ones
			var name []byte
			var et simdjson.Type
			var err error
			if w.depth%2 == 0 {
				name, et, err = obj.NextElementBytes(&e)
			} else {
				var sname string
				sname, et, err = obj.NextElement(&e)
				name = []byte(sname)
			}
			if err != nil {
				return nil, err
			}
			if et == simdjson.TypeNone {
				break
			}
			v, err := w.advValue(&e, et)
			if err != nil {
				return nil, err
			}
			m.Keys = append(m.Keys, append([]byte(nil), name...))
			m.Vals = append(m.Vals, v)
		}
		return m, nil
	}
	v, err := scalarOf(it, t)
	if err == nil {
		// on big tapes every 16th scalar (the accessors make an error value per call for the wrong type: nine calls
		// per scalar over hundreds of thousands of scalars were a third of a check's time)
		w.scalars++
		if (w.cap < 8*4096 || w.scalars%16 == 0) && w.scalars%crossReadStride == 0 {
			if cerr := crossReads(it, t, v); cerr != nil {
				return nil, cerr
			}
		}
	}
	return v, err
}

// crossReadStride thins the typed cross-reads out where results are looked at for panics only (the traversal battery of
// the fault engines sets it while it runs: thousands of accepted fault cases per run, each traversed completely).
var crossReadStride = 1

// crossReads calls the typed accessors that do NOT belong to the value's own type on a scalar the iterator stands on and
// holds them to their documentation: Float/FloatFlags convert integers ("Integers are automatically converted to
// float"), Int/Uint convert numbers that are in range ("Integers and floats within range are automatically converted",
// "Positive integers and floats ..."), everything else is an error; StringCvt gives the text of the value; a read never
// changes what the own-type accessor returns. Floats exactly at +-2^63 / 2^64 are left unjudged (the documentation's
// "within range" does not say which side the edge is on). mv is the value the own-type accessor has just returned.
func crossReads(it *simdjson.Iter, t simdjson.Type, mv *MV) error {
	const two63, two64 = 9223372036854775808.0, 18446744073709551616.0
	bad := func(api string, got interface{}, err error, want string) error {
		return fmt.Errorf("typed read %s on a value of type %s differs from its documentation || value %s: got (%v, %v), documented: %s", api, t, mv.short(), got, err, want)
	}
	isNum := t == simdjson.TypeInt || t == simdjson.TypeUint || t == simdjson.TypeFloat
	// Float / FloatFlags
	f, ferr := it.Float()
	f2, fl2, ferr2 := it.FloatFlags()
	switch t {
	case simdjson.TypeInt:
		if ferr != nil || f != float64(mv.I) {
			return bad("Float()", f, ferr, "the integer converted to float")
		}
		if ferr2 != nil || f2 != float64(mv.I) || fl2 != 0 {
			return bad("FloatFlags()", f2, ferr2, "the integer converted to float, no flags")
		}
	case simdjson.TypeUint:
		if ferr != nil || f != float64(mv.U) {
			return bad("Float()", f, ferr, "the integer converted to float")
		}
		if ferr2 != nil || f2 != float64(mv.U) || fl2 != 0 {
			return bad("FloatFlags()", f2, ferr2, "the integer converted to float, no flags")
		}
	case simdjson.TypeFloat:
		if ferr != nil || math.Float64bits(f) != math.Float64bits(mv.F) {
			return bad("Float()", f, ferr, "the float itself")
		}
	default:
		if ferr == nil {
			return bad("Float()", f, ferr, "an error (not a number)")
		}
		if ferr2 == nil {
			return bad("FloatFlags()", f2, ferr2, "an error (not a number)")
		}
	}
	// Int
	i, ierr := it.Int()
	switch t {
	case simdjson.TypeUint:
		if mv.U <= math.MaxInt64 {
			if ierr != nil || i != int64(mv.U) {
				return bad("Int()", i, ierr, "the value (it is in range)")
			}
		} else if ierr == nil {
			return bad("Int()", i, ierr, "an error (above the int64 range)")
		}
	case simdjson.TypeFloat:
		switch {
		case mv.F != mv.F: // NaN: unjudged
		case mv.F > -two63 && mv.F < two63:
			if ierr != nil || i != int64(mv.F) {
				return bad("Int()", i, ierr, "the float converted to int64 (it is in range)")
			}
		case mv.F > two63 || mv.F < -two63:
			if ierr == nil {
				return bad("Int()", i, ierr, "an error (outside the int64 range)")
			}
		}
	case simdjson.TypeInt:
	default:
		if ierr == nil {
			return bad("Int()", i, ierr, "an error (not a number)")
		}
	}
	// Uint
	u, uerr := it.Uint()
	switch t {
	case simdjson.TypeInt:
		if mv.I >= 0 {
			if uerr != nil || u != uint64(mv.I) {
				return bad("Uint()", u, uerr, "the value (it is not negative)")
			}
		} else if uerr == nil {
			return bad("Uint()", u, uerr, "an error (negative)")
		}
	case simdjson.TypeFloat:
		switch {
		case mv.F != mv.F:
		case mv.F >= 0 && mv.F < two64:
			if uerr != nil || u != uint64(mv.F) {
				return bad("Uint()", u, uerr, "the float converted to uint64 (it is in range)")
			}
		case mv.F > two64 || mv.F <= -1:
			if uerr == nil {
				return bad("Uint()", u, uerr, "an error (outside the uint64 range)")
			}
		}
	case simdjson.TypeUint:
	default:
		if uerr == nil {
			return bad("Uint()", u, uerr, "an error (not a number)")
		}
	}
	// Bool / String / StringBytes on values of another type
	if t != simdjson.TypeBool {
		if b, err := it.Bool(); err == nil {
			return bad("Bool()", b, err, "an error (not a bool)")
		}
	}
	if t != simdjson.TypeString {
		if s, err := it.String(); err == nil {
			return bad("String()", s, err, "an error (not a string)")
		}
		if s, err := it.StringBytes(); err == nil {
			return bad("StringBytes()", s, err, "an error (not a string)")
		}
	} else {
		s, err := it.String()
		if err != nil || s != string(mv.S) {
			return bad("String()", s, err, "the same bytes StringBytes returns")
		}
	}
	// StringCvt: "a string representation of the value"
	cv, cerr := it.StringCvt()
	switch t {
	case simdjson.TypeNull:
		if cerr != nil || cv != "null" {
			return bad("StringCvt()", cv, cerr, `"null"`)
		}
	case simdjson.TypeBool:
		if cerr != nil || cv != strconv.FormatBool(mv.B) {
			return bad("StringCvt()", cv, cerr, "true/false")
		}
	case simdjson.TypeInt:
		if cerr != nil || cv != strconv.FormatInt(mv.I, 10) {
			return bad("StringCvt()", cv, cerr, "the decimal digits")
		}
	case simdjson.TypeUint:
		if cerr != nil || cv != strconv.FormatUint(mv.U, 10) {
			return bad("StringCvt()", cv, cerr, "the decimal digits")
		}
	case simdjson.TypeString:
		if cerr != nil || cv != string(mv.S) {
			return bad("StringCvt()", cv, cerr, "the string itself")
		}
	case simdjson.TypeFloat:
		if mv.F == mv.F && !math.IsInf(mv.F, 0) {
			back, perr := strconv.ParseFloat(cv, 64)
			if cerr != nil || perr != nil || back != mv.F {
				return bad("StringCvt()", cv, cerr, "a number text that converts back to the same float")
			}
		}
	}
	// the reads above must not have moved or changed the iterator: the own-type accessor still gives the same value
	again, err := scalarOf(it, t)
	if err != nil {
		return fmt.Errorf("typed reads changed the iterator: %s %s can no longer be read: %v", t, mv.short(), err)
	}
	if isNum || t == simdjson.TypeBool || t == simdjson.TypeString {
		if d := Diff(mv, again, EqExact); d != "" {
			return fmt.Errorf("typed reads changed the iterator: %s", d)
		}
	}
	return nil
}

// WalkAdvance exposes the document through Advance, Root, Array.Iter and NextElementBytes.
func WalkAdvance(pj *simdjson.ParsedJson) (roots []*MV, err error) {
	w := newWalkCtx(pj)
	err = safely(func() error {
		it := pj.Iter()
		for {
			if err := w.tick(); err != nil {
				return err
			}
			t := it.Advance()
			if t == simdjson.TypeNone {
				if it.Type() != simdjson.TypeNone {
					return fmt.Errorf("Advance returned no type after the last root but the iterator still reports %v", it.Type())
				}
				return nil
			}
			if t != simdjson.TypeRoot {
				return fmt.Errorf("top level: expected root, got %v", t)
			}
			var rdst *simdjson.Iter
			if walkDsts.reuse {
				rdst = &walkDsts.root
			}
			rt, inner, err := it.Root(rdst)
			if err != nil {
				return err
			}
			v, err := w.advValue(inner, rt)
			if err != nil {
				return err
			}
			roots = append(roots, v)
		}
	})
	return
}

// ---- W-aiter: AdvanceIter for arrays and roots, Object.Parse for objects ----------------

func (w *walkCtx) aiterValue(it *simdjson.Iter, t simdjson.Type) (*MV, error) {
	if err := w.tick(); err != nil {
		return nil, err
	}
	switch t {
	case simdjson.TypeArray:
		arr, err := it.Array(nil)
		if err != nil {
			return nil, err
		}
		m := &MV{K: KArray, Arr: []*MV{}}
		ai := arr.Iter()
		var e simdjson.Iter
		for {
			et, err := ai.AdvanceIter(&e)
			if err != nil {
				return nil, err
			}
			if et == simdjson.TypeNone {
				break
			}
			v, err := w.aiterValue(&e, et)
			if err != nil {
				return nil, err
			}
			m.Arr = append(m.Arr, v)
		}
		return m, nil
	case simdjson.TypeObject:
		obj, err := it.Object(nil)
		if err != nil {
			return nil, err
		}
		elems, err := obj.Parse(w.elems)
		if err != nil {
			return nil, err
		}
		// the destination is reused for the next object: finish with this one first (children are walked afterwards)
		type member struct {
			name string
			t    simdjson.Type
			it   simdjson.Iter
		}
		members := make([]member, len(elems.Elements))
		for i, e := range elems.Elements {
			members[i] = member{e.Name, e.Type, e.Iter}
		}
		// Elements.Lookup must return the last member with that name, and know no other names
		last := map[string]int{}
		for i := range elems.Elements {
			last[elems.Elements[i].Name] = i
		}
		if len(elems.Index) != len(last) {
			return nil, fmt.Errorf("Object.Parse: Index holds %d names but the object has %d distinct names (stale entries from the reused destination?)", len(elems.Index), len(last))
		}
		for k, i := range last {
			if e := elems.Lookup(k); e != &elems.Elements[i] {
				return nil, fmt.Errorf("Elements.Lookup(%q) did not return member #%d", k, i)
			}
		}
		if e := elems.Lookup("\x00absent-name"); e != nil {
			return nil, fmt.Errorf("Elements.Lookup of an absent name returned %q", e.Name)
		}
		w.elems = elems
		m := &MV{K: KObject, Keys: [][]byte{}, Vals: []*MV{}}
		for i := range members {
			e := &members[i]
			v, err := w.aiterValue(&e.it, e.t)
			if err != nil {
				return nil, err
			}
			m.Keys = append(m.Keys, []byte(e.name))
			m.Vals = append(m.Vals, v)
		}
		return m, nil
	}
	return scalarOf(it, t)
}

// WalkAdvanceIter exposes the document through AdvanceIter and Object.Parse.
func WalkAdvanceIter(pj *simdjson.ParsedJson) (roots []*MV, err error) {
	w := newWalkCtx(pj)
	err = safely(func() error {
		it := pj.Iter()
		var r simdjson.Iter
		for {
			if err := w.tick(); err != nil {
				return err
			}
			t, err := it.AdvanceIter(&r)
			if err != nil {
				return err
			}
			if t == simdjson.TypeNone {
				return nil
			}
			if t != simdjson.TypeRoot {
				return fmt.Errorf("top level: expected root, got %v", t)
			}
			// r is restricted to the root; step into it.
			vt := r.Advance()
			v, err := w.aiterValue(&r, vt)
			if err != nil {
				return err
			}
			roots = append(roots, v)
		}
	})
	return
}

// ---- W-into: flat AdvanceInto token walk ------------------------------------------------

// WalkInto exposes the document through a flat AdvanceInto token stream.
func WalkInto(pj *simdjson.ParsedJson) (roots []*MV, err error) {
	w := newWalkCtx(pj)
	err = safely(func() error {
		it := pj.Iter()
		type frame struct {
			m       *MV
			wantKey bool
			key     []byte
		}
		var stack []*frame
		inRoot := false
		add := func(v *MV) error {
			if len(stack) == 0 {
				if !inRoot {
					return errors.New("value outside root")
				}
				roots = append(roots, v)
				return nil
			}
			f := stack[len(stack)-1]
			if f.m.K == KArray {
				f.m.Arr = append(f.m.Arr, v)
				return nil
			}
			f.m.Keys = append(f.m.Keys, f.key)
			f.m.Vals = append(f.m.Vals, v)
			f.wantKey = true
			return nil
		}
		for {
			if err := w.tick(); err != nil {
				return err
			}
			tag := it.AdvanceInto()
			switch tag {
			case simdjson.TagEnd:
				if len(stack) != 0 {
					return errors.New("tape ended inside a container")
				}
				return nil
			case simdjson.TagRoot:
				if len(stack) != 0 {
					return errors.New("root tag inside a container")
				}
				inRoot = !inRoot
			case simdjson.TagObjectStart:
				stack = append(stack, &frame{m: &MV{K: KObject, Keys: [][]byte{}, Vals: []*MV{}}, wantKey: true})
			case simdjson.TagArrayStart:
				stack = append(stack, &frame{m: &MV{K: KArray, Arr: []*MV{}}})
			case simdjson.TagObjectEnd, simdjson.TagArrayEnd:
				if len(stack) == 0 {
					return errors.New("unbalanced end tag")
				}
				f := stack[len(stack)-1]
				if (tag == simdjson.TagObjectEnd) != (f.m.K == KObject) {
					return errors.New("mismatched end tag")
				}
				if f.m.K == KObject && !f.wantKey {
					return errors.New("object ended after a key")
				}
				stack = stack[:len(stack)-1]
				if err := add(f.m); err != nil {
					return err
				}
			default:
				if len(stack) > 0 {
					f := stack[len(stack)-1]
					if f.m.K == KObject && f.wantKey {
						if tag != simdjson.TagString {
							return fmt.Errorf("object key has tag %v", tag)
						}
						b, err := it.StringBytes()
						if err != nil {
							return err
						}
						f.key = append([]byte(nil), b...)
						f.wantKey = false
						continue
					}
				}
				v, err := scalarOf(&it, tag.Type())
				if err != nil {
					return err
				}
				if err := add(v); err != nil {
					return err
				}
			}
		}
	})
	return
}

// ---- W-foreach: ParsedJson.ForEach / Object.ForEach / Array.ForEach ------------------------

func (w *walkCtx) feValue(it *simdjson.Iter, t simdjson.Type) (*MV, error) {
	if err := w.tick(); err != nil {
		return nil, err
	}
	switch t {
	case simdjson.TypeArray:
		arr, err := it.Array(nil)
		if err != nil {
			return nil, err
		}
		m := &MV{K: KArray, Arr: []*MV{}}
		var ferr error
		arr.ForEach(func(e simdjson.Iter) {
			if ferr != nil {
				return
			}
			v, err := w.feValue(&e, e.Type())
			if err != nil {
				ferr = err
				return
			}
			m.Arr = append(m.Arr, v)
		})
		return m, ferr
	case simdjson.TypeObject:
		obj, err := it.Object(nil)
		if err != nil {
			return nil, err
		}
		m := &MV{K: KObject, Keys: [][]byte{}, Vals: []*MV{}}
		var ferr error
		err = obj.ForEach(func(key []byte, e simdjson.Iter) {
			if ferr != nil {
				return
			}
			v, err := w.feValue(&e, e.Type())
			if err != nil {
				ferr = err
				return
			}
			m.Keys = append(m.Keys, append([]byte(nil), key...))
			m.Vals = append(m.Vals, v)
		}, nil)
		if err != nil {
			return nil, err
		}
		if ferr == nil {
			if err := w.feFiltered(obj, m); err != nil {
				return nil, err
			}
		}
		return m, ferr
	}
	return scalarOf(it, t)
}

// feFiltered: Object.ForEach with a key filter ("A key filter can be provided for optional filtering") visits exactly the
// members whose names are in the filter, in order, each with its own value. Judged on objects whose names are distinct
// (with duplicates the early exit after len(filter) callbacks makes the documented behaviour debatable); m is what the
// unfiltered ForEach has just exposed for the same object.
func (w *walkCtx) feFiltered(obj *simdjson.Object, m *MV) error {
	n := len(m.Keys)
	if n == 0 || n > 48 {
		return nil
	}
	seen := make(map[string]struct{}, n)
	for _, k := range m.Keys {
		if _, dup := seen[string(k)]; dup {
			return nil
		}
		seen[string(k)] = struct{}{}
	}
	filters := []map[string]struct{}{{string(m.Keys[n-1]): {}}}
	if n >= 2 {
		f := map[string]struct{}{"\x00no such name\x00": {}}
		for i := 1; i < n; i += 2 {
			f[string(m.Keys[i])] = struct{}{}
		}
		filters = append(filters, f, map[string]struct{}{string(m.Keys[0]): {}, string(m.Keys[n-1]): {}})
	}
	for _, f := range filters {
		var want []int
		for i, k := range m.Keys {
			if _, ok := f[string(k)]; ok {
				want = append(want, i)
			}
		}
		var names []string
		for k := range f {
			names = append(names, strconv.Quote(k))
		}
		sort.Strings(names)
		k := 0
		var problem error
		err := obj.ForEach(func(key []byte, e simdjson.Iter) {
			if problem != nil {
				return
			}
			if k >= len(want) {
				problem = fmt.Errorf("Object.ForEach with a key filter: more callbacks than selected members || filter %v: extra callback for %s (%v); the object has %d members with these names", names, shortBytes(key), e.Type(), len(want))
				return
			}
			idx := want[k]
			k++
			if string(key) != string(m.Keys[idx]) {
				problem = fmt.Errorf("Object.ForEach with a key filter: callback for a member that is not selected || filter %v: callback #%d has name %s, expected member #%d %s", names, k-1, shortBytes(key), idx, shortBytes(m.Keys[idx]))
				return
			}
			exp := m.Vals[idx]
			switch exp.K {
			case KArray:
				if e.Type() != simdjson.TypeArray {
					problem = fmt.Errorf("Object.ForEach with a key filter: callback value is not the member's value || filter %v: member %s is an array but the callback got %v", names, shortBytes(key), e.Type())
				}
			case KObject:
				if e.Type() != simdjson.TypeObject {
					problem = fmt.Errorf("Object.ForEach with a key filter: callback value is not the member's value || filter %v: member %s is an object but the callback got %v", names, shortBytes(key), e.Type())
				}
			default:
				got, err := scalarOf(&e, e.Type())
				if err != nil {
					problem = fmt.Errorf("Object.ForEach with a key filter: callback value is not the member's value || filter %v: member %s (%s): callback value unreadable (%v): %v", names, shortBytes(key), exp.short(), e.Type(), err)
				} else if d := Diff(exp, got, EqExact); d != "" {
					problem = fmt.Errorf("Object.ForEach with a key filter: callback value is not the member's value || filter %v: member %s: %s", names, shortBytes(key), d)
				}
			}
		}, f)
		if problem != nil {
			return problem
		}
		if err != nil {
			return fmt.Errorf("Object.ForEach with a key filter: error || filter %v: %v", names, err)
		}
		if k != len(want) {
			return fmt.Errorf("Object.ForEach with a key filter: fewer callbacks than selected members || filter %v: %d callbacks, the object has %d members with these names", names, k, len(want))
		}
	}
	return nil
}

// WalkForEach exposes the document through the ForEach family.
func WalkForEach(pj *simdjson.ParsedJson) (roots []*MV, err error) {
	w := newWalkCtx(pj)
	err = safely(func() error {
		return pj.ForEach(func(i simdjson.Iter) error {
			v, err := w.feValue(&i, i.Type())
			if err != nil {
				return err
			}
			roots = append(roots, v)
			return nil
		})
	})
	return
}

// ---- W-iface: Iter.Interface ---------------------------------------------------------------

// WalkInterface returns what Iter.Interface exposes for the whole tape.
func WalkInterface(pj *simdjson.ParsedJson) (v interface{}, err error) {
	err = safely(func() error {
		it := pj.Iter()
		var e error
		v, e = it.Interface()
		return e
	})
	return
}

// DiffInterface compares the model with an Interface() result (maps: last duplicate wins, unordered).
func DiffInterface(m *MV, v interface{}, path string) string {
	switch m.K {
	case KNull:
		if v != nil {
			return fmt.Sprintf("%s: expected nil, got %T", path, v)
		}
	case KBool:
		if b, ok := v.(bool); !ok || b != m.B {
			return fmt.Sprintf("%s: expected bool %v, got %T %v", path, m.B, v, v)
		}
	case KInt:
		if i, ok := v.(int64); !ok || i != m.I {
			return fmt.Sprintf("%s: expected int64 %v, got %T %v", path, m.I, v, v)
		}
	case KUint:
		if u, ok := v.(uint64); !ok || u != m.U {
			return fmt.Sprintf("%s: expected uint64 %v, got %T %v", path, m.U, v, v)
		}
	case KFloat:
		if f, ok := v.(float64); !ok || !(f == m.F || (f != f && m.F != m.F)) {
			return fmt.Sprintf("%s: expected float64 %v, got %T %v", path, m.F, v, v)
		}
	case KString:
		if s, ok := v.(string); !ok || s != string(m.S) {
			return fmt.Sprintf("%s: expected string %s, got %T", path, shortBytes(m.S), v)
		}
	case KArray:
		a, ok := v.([]interface{})
		if !ok {
			return fmt.Sprintf("%s: expected []interface{}, got %T", path, v)
		}
		if len(a) != len(m.Arr) {
			return fmt.Sprintf("%s: array length %d, Interface gives %d", path, len(m.Arr), len(a))
		}
		for i := range a {
			if d := DiffInterface(m.Arr[i], a[i], childPath(path, "["+strconv.Itoa(i)+"]")); d != "" {
				return d
			}
		}
	case KObject:
		mp, ok := v.(map[string]interface{})
		if !ok {
			return fmt.Sprintf("%s: expected map, got %T", path, v)
		}
		exp := map[string]*MV{}
		for i, k := range m.Keys {
			exp[string(k)] = m.Vals[i]
		}
		if len(exp) != len(mp) {
			return fmt.Sprintf("%s: object has %d distinct keys, Interface gives %d", path, len(exp), len(mp))
		}
		keys := make([]string, 0, len(exp))
		for k := range exp {
			keys = append(keys, k)
		}
		sort.Strings(keys)
		for _, k := range keys {
			got, ok := mp[k]
			if !ok {
				return fmt.Sprintf("%s: key %q missing from Interface map", path, k)
			}
			if d := DiffInterface(exp[k], got, childPath(path, "."+k)); d != "" {
				return d
			}
		}
	}
	return ""
}

// DiffInterfaceRoots compares a root list with the top-level Interface() result.
func DiffInterfaceRoots(roots []*MV, v interface{}) string {
	a, ok := v.([]interface{})
	if !ok {
		return fmt.Sprintf("top level: expected []interface{}, got %T", v)
	}
	if len(a) != len(roots) {
		return fmt.Sprintf("root count %d, Interface gives %d", len(roots), len(a))
	}
	for i := range a {
		if d := DiffInterface(roots[i], a[i], fmt.Sprintf("$%d", i)); d != "" {
			return d
		}
	}
	return ""
}

// ---- W-find: FindKey / FindPath / FindElement -----------------------------------------------

// CheckFind verifies FindKey and FindPath for every key of every object (first match) and for
// absent keys, and FindElement from each root. Returns a description of the first disagreement.
func CheckFind(pj *simdjson.ParsedJson, roots []*MV) (diff string, err error) {
	w := newWalkCtx(pj)
	// Reading every found value completely at every level is quadratic in the nesting depth - the harness's own cost,
	// which must not eat the step cap that stands for "the library terminates". Below the fourth level a found subtree
	// of more than 64 values is compared by kind only (its content is compared when the walk descends into it), and the
	// cap covers the up to three complete reads per name on each of the levels above.
	w.cap = 64*len(pj.Tape) + 4096
	depth := 0
	sizes := map[*MV]int{}
	var sizeOf func(m *MV) int
	sizeOf = func(m *MV) int {
		if n, ok := sizes[m]; ok {
			return n
		}
		n := 1
		for _, c := range m.Arr {
			n += sizeOf(c)
		}
		for _, c := range m.Vals {
			n += sizeOf(c)
		}
		sizes[m] = n
		return n
	}
	readFound := func(it *simdjson.Iter, t simdjson.Type, want *MV) (*MV, error) {
		if depth > 4 && sizeOf(want) > 64 {
			if want.K == KObject && t == simdjson.TypeObject || want.K == KArray && t == simdjson.TypeArray {
				return want, nil
			}
			return nil, fmt.Errorf("found a value of type %v where the document has %s", t, want.short())
		}
		return w.advValue(it, t)
	}
	var visit func(it *simdjson.Iter, t simdjson.Type, m *MV, path string) error
	visit = func(it *simdjson.Iter, t simdjson.Type, m *MV, path string) error {
		if err := w.tick(); err != nil {
			return err
		}
		if diff != "" {
			return nil
		}
		depth++
		defer func() { depth-- }()
		switch m.K {
		case KObject:
			if t != simdjson.TypeObject {
				diff = fmt.Sprintf("%s: expected object, got %v", path, t)
				return nil
			}
			// a destination kept per nesting depth (when the run reuses destinations): the same Object value
			// serves one object after the other, lookups included
			findDsts.reuse = walkDsts.reuse
			obj, err := it.Object(findDsts.obj(depth))
			if err != nil {
				return err
			}
			first := map[string]int{}
			var order []string
			for i, k := range m.Keys {
				if _, ok := first[string(k)]; !ok {
					first[string(k)] = i
					order = append(order, string(k))
				}
			}
			for _, k := range order {
				want := m.Vals[first[k]]
				el := obj.FindKey(k, nil)
				if el == nil {
					diff = fmt.Sprintf("%s: FindKey(%q) returned nil for a present key", path, k)
					return nil
				}
				got, err := readFound(&el.Iter, el.Type, want)
				if err != nil {
					return fmt.Errorf("%s: reading FindKey(%q) result: %w", path, k, err)
				}
				if d := Diff(want, got, EqExact); d != "" {
					diff = fmt.Sprintf("%s: FindKey(%q): %s", path, k, d)
					return nil
				}
				el2, err := obj.FindPath(nil, k)
				if err != nil {
					diff = fmt.Sprintf("%s: FindPath(%q) failed for a present key: %v", path, k, err)
					return nil
				}
				got2, err := readFound(&el2.Iter, el2.Type, want)
				if err != nil {
					return fmt.Errorf("%s: reading FindPath(%q) result: %w", path, k, err)
				}
				if d := Diff(want, got2, EqExact); d != "" {
					diff = fmt.Sprintf("%s: FindPath(%q): %s", path, k, d)
					return nil
				}
				// two-level path
				if want.K == KObject && len(want.Keys) > 0 {
					k2 := string(want.Keys[0])
					el3, err := obj.FindPath(nil, k, k2)
					if err != nil {
						diff = fmt.Sprintf("%s: FindPath(%q,%q) failed: %v", path, k, k2, err)
						return nil
					}
					got3, err := readFound(&el3.Iter, el3.Type, want.Vals[0])
					if err != nil {
						return err
					}
					if d := Diff(want.Vals[0], got3, EqExact); d != "" {
						diff = fmt.Sprintf("%s: FindPath(%q,%q): %s", path, k, k2, d)
						return nil
					}
				}
			}
			for _, absent := range []string{"\x00absent", "zz-not-there"} {
				if _, ok := first[absent]; ok {
					continue
				}
				if el := obj.FindKey(absent, nil); el != nil {
					diff = fmt.Sprintf("%s: FindKey(%q) found an absent key", path, absent)
					return nil
				}
				if _, err := obj.FindPath(nil, absent); !errors.Is(err, simdjson.ErrPathNotFound) {
					diff = fmt.Sprintf("%s: FindPath(%q) on absent key returned %v", path, absent, err)
					return nil
				}
			}
			// recurse through NextElementBytes (independent of Advance)
			var e simdjson.Iter
			for i := 0; ; i++ {
				_, et, err := obj.NextElementBytes(&e)
				if err != nil {
					return err
				}
				if et == simdjson.TypeNone {
					break
				}
				if i >= len(m.Vals) {
					break
				}
				if m.Vals[i].isContainer() {
					if err := visit(&e, et, m.Vals[i], childPath(path, "."+shortBytes(m.Keys[i]))); err != nil {
						return err
					}
				}
			}
		case KArray:
			if t != simdjson.TypeArray {
				diff = fmt.Sprintf("%s: expected array, got %v", path, t)
				return nil
			}
			// Descend through Array.Iter/Advance; count mismatches are W-adv's business, not reported here.
			findDsts.reuse = walkDsts.reuse
			arr, err := it.Array(findDsts.arr(depth))
			if err != nil {
				return err
			}
			ai := arr.Iter()
			for i := 0; i < len(m.Arr); i++ {
				et := ai.Advance()
				if et == simdjson.TypeNone {
					break
				}
				if m.Arr[i].K == KObject && et == simdjson.TypeObject || m.Arr[i].K == KArray && et == simdjson.TypeArray {
					if err := visit(&ai, et, m.Arr[i], childPath(path, "["+strconv.Itoa(i)+"]")); err != nil {
						return err
					}
				}
			}
		}
		return nil
	}
	err = safely(func() error {
		it := pj.Iter()
		for r := 0; ; r++ {
			t := it.Advance()
			if t != simdjson.TypeRoot {
				return nil
			}
			if r >= len(roots) {
				return nil
			}
			rt, inner, err := it.Root(nil)
			if err != nil {
				return err
			}
			// Iter.FindElement from the root iterator position
			if roots[r].K == KObject && len(roots[r].Keys) > 0 {
				k := string(roots[r].Keys[0])
				el, ferr := inner.FindElement(nil, k)
				if ferr != nil {
					diff = fmt.Sprintf("$%d: FindElement(%q) failed: %v", r, k, ferr)
					return nil
				}
				got, err := w.advValue(&el.Iter, el.Type)
				if err != nil {
					return err
				}
				// first match
				if d := Diff(roots[r].Vals[0], got, EqExact); d != "" {
					// Vals[0] is the first member, hence the first match of its own key
					diff = fmt.Sprintf("$%d: FindElement(%q): %s", r, k, d)
					return nil
				}
			}
			if err := visit(inner, rt, roots[r], fmt.Sprintf("$%d", r)); err != nil {
				return err
			}
			if diff != "" {
				return nil
			}
		}
	})
	return
}

// WalkFindBlind looks names up in every object of a tape without a model (C05/C19: results of arbitrary or damaged
// input): each object's own last name, names remembered from objects visited before, and an absent one - through one
// Object destination per nesting depth and one Element destination, the way an allocation-averse caller does.
// API errors end the branch; only panics (and the step cap) are reported.
func WalkFindBlind(pj *simdjson.ParsedJson) error {
	w := newWalkCtx(pj)
	var el simdjson.Element
	var recent [][]byte
	var visit func(it *simdjson.Iter, t simdjson.Type, depth int) error
	visit = func(it *simdjson.Iter, t simdjson.Type, depth int) error {
		if err := w.tick(); err != nil {
			return err
		}
		if depth > 2000 {
			return nil
		}
		switch t {
		case simdjson.TypeObject:
			dst := blindDsts.obj(depth)
			obj, err := it.Object(dst)
			if err != nil {
				return nil
			}
			var names [][]byte
			scan := *obj
			var e simdjson.Iter
			for {
				if err := w.tick(); err != nil {
					return err
				}
				name, et, err := scan.NextElementBytes(&e)
				if err != nil || et == simdjson.TypeNone {
					break
				}
				if len(names) < 64 {
					names = append(names, append([]byte(nil), name...))
				}
			}
			look := [][]byte{[]byte("zz-absent")}
			if len(names) > 0 {
				look = append(look, names[len(names)-1], names[len(names)/2])
			}
			look = append(look, recent...)
			// Object.Parse into one Elements value kept for the whole walk, then Lookup of the same names
			if depth < 64 {
				if els, err := obj.Parse(blindElems); err == nil && els != nil {
					blindElems = els
					for _, k := range look {
						if e := els.Lookup(string(k)); e != nil {
							_ = e.Type
						}
					}
				}
			}
			for _, k := range look {
				if r := obj.FindKey(string(k), &el); r != nil && depth < 3 {
					r.Iter.Interface() // (bounded: converting the subtree at every level of a deep chain is quadratic)
				}
				obj.FindPath(&el, string(k))
			}
			if len(names) > 0 {
				recent = append(recent, names[len(names)-1])
				if len(recent) > 3 {
					recent = recent[1:]
				}
			}
			children := *obj
			var ce simdjson.Iter
			for {
				_, et, err := children.NextElementBytes(&ce)
				if err != nil || et == simdjson.TypeNone {
					break
				}
				if et == simdjson.TypeObject || et == simdjson.TypeArray {
					if err := visit(&ce, et, depth+1); err != nil {
						return err
					}
				}
			}
		case simdjson.TypeArray:
			arr, err := it.Array(blindDsts.arr(depth))
			if err != nil {
				return nil
			}
			ai := arr.Iter()
			for {
				if err := w.tick(); err != nil {
					return err
				}
				et := ai.Advance()
				if et == simdjson.TypeNone {
					break
				}
				if et == simdjson.TypeObject || et == simdjson.TypeArray {
					if err := visit(&ai, et, depth+1); err != nil {
						return err
					}
				}
			}
		}
		return nil
	}
	return safely(func() error {
		it := pj.Iter()
		for {
			if err := w.tick(); err != nil {
				return err
			}
			if it.Advance() != simdjson.TypeRoot {
				return nil
			}
			rt, inner, err := it.Root(nil)
			if err != nil {
				return nil
			}
			if err := visit(inner, rt, 0); err != nil {
				return err
			}
		}
	})
}

// blindDsts are WalkFindBlind's own per-depth destinations (always reused).
var blindDsts = &walkDstCache{reuse: true}
var blindElems *simdjson.Elements // nil until Object.Parse has returned one (a zero value is not a valid destination)

// ---- W-marshal ----------------------------------------------------------------------------

// MarshalRoot marshals the whole tape from a fresh iterator.
func MarshalRoot(pj *simdjson.ParsedJson) (out []byte, err error) {
	return MarshalRootVia(pj, 0)
}

// MarshalRootVia marshals the whole tape from a root iterator obtained in one of three documented ways:
// 0 a fresh Iter(), 1 after Advance() queued the first root (the README's way), 2 after AdvanceInto().
func MarshalRootVia(pj *simdjson.ParsedJson, how int) (out []byte, err error) {
	err = safely(func() error {
		it := pj.Iter()
		switch how % 3 {
		case 1:
			if t := it.Advance(); t != simdjson.TypeRoot {
				return fmt.Errorf("Advance on a fresh iterator returned %v, not root", t)
			}
		case 2:
			if t := it.AdvanceInto(); t != simdjson.TagRoot {
				return fmt.Errorf("AdvanceInto on a fresh iterator returned %v, not root", t)
			}
		}
		var e error
		out, e = appendMarshal(how/3, it.MarshalJSONBuffer)
		return e
	})
	return
}

// marshalPrefixes are destinations handed to the MarshalJSONBuffer variants ("An optional buffer can be provided for
// fewer allocations. Output will be appended to the destination."): none, an empty one with room, and ones that
// already hold bytes ending in different kinds of characters.
var marshalPrefixes = [][]byte{nil, make([]byte, 0, 64), []byte("rec="), []byte(`{"a":1}`), []byte("17 "), []byte("x\n"), []byte("[1,"), bytes.Repeat([]byte("p"), 5000)}

// appendMarshal calls a MarshalJSONBuffer method with destination kind pk and returns what it appended; the bytes that
// were in the destination before must still be there.
func appendMarshal(pk int, f func(dst []byte) ([]byte, error)) ([]byte, error) {
	pre := marshalPrefixes[pk%len(marshalPrefixes)]
	if pre == nil {
		return f(nil)
	}
	dst := make([]byte, len(pre), cap(pre)+len(pre)%7)
	copy(dst, pre)
	out, err := f(dst)
	if err != nil {
		return nil, err
	}
	if len(out) < len(pre) || !bytes.Equal(out[:len(pre)], pre) {
		return nil, fmt.Errorf("MarshalJSONBuffer did not append to its destination || the %d bytes %s it held are no longer in front of the output %s", len(pre), shortBytes(pre), shortBytes(out))
	}
	return append([]byte(nil), out[len(pre):]...), nil
}

// ---- W-ser -----------------------------------------------------------------------------------

// RoundTrip serializes pj with ser and deserializes with des into dst.
func RoundTrip(ser, des *simdjson.Serializer, pj *simdjson.ParsedJson, dst *simdjson.ParsedJson) (out *simdjson.ParsedJson, blob []byte, err error) {
	err = safely(func() error {
		blob = ser.Serialize(nil, *pj)
		var e error
		out, e = des.Deserialize(blob, dst)
		return e
	})
	return
}

// childPath extends a path for messages; long paths keep their tail only (building full paths on the way down is
// quadratic in the nesting depth).
func childPath(path, seg string) string {
	if len(path) > 240 {
		path = "…" + path[len(path)-200:]
	}
	return path + seg
}
