package sim

import (
	"bytes"
	"encoding/binary"
	"errors"
	"io"

	"github.com/klauspost/compress/s2"
	"github.com/klauspost/compress/zstd"
)

// Blob framing walker: an independent reader of the serialized container, written from the format
// comment in Serialize (version, varints, block type bytes, section sizes). It is used to
//   (a) aim mutations at tags / values / varints / block types, also in compressed modes
//       (decompress - mutate - recompress with the same codec library), and
//   (b) exclude blobs whose *declared* sizes exceed the allocation cap, as C19 stipulates.

const allocCap = 16 << 20 // declared sizes above this are "not small enough to allocate" for the check

type blobSection struct {
	rawSizeOff, rawSizeLen int // varint: uncompressed size of the section
	rawSize                uint64
	blkSizeOff, blkSizeLen int // varint: size of the block (type byte + payload)
	blkSize                uint64
	typeOff                int // offset of the block type byte (-1: empty block)
	typ                    byte
	payOff, payLen         int
}

type blobFraming struct {
	version                  byte
	compSizeOff, compSizeLen int
	compSize                 uint64
	tapeSizeOff, tapeSizeLen int
	tapeSize                 uint64
	sec                      [4]blobSection // strings, message, tags, values
	end                      int
}

var secNames = [4]string{"strings", "message", "tags", "values"}

func readUvarintAt(b []byte, off int) (v uint64, n int, ok bool) {
	if off > len(b) {
		return 0, 0, false
	}
	v, n = binary.Uvarint(b[off:])
	if n <= 0 {
		return 0, 0, false
	}
	return v, n, true
}

// parseFraming walks the container. It fails on anything the format comment does not allow.
func parseFraming(b []byte) (*blobFraming, error) {
	f := &blobFraming{}
	if len(b) < 1 {
		return nil, errors.New("empty")
	}
	f.version = b[0]
	off := 1
	var ok bool
	f.compSizeOff = off
	if f.compSize, f.compSizeLen, ok = readUvarintAt(b, off); !ok {
		return nil, errors.New("comp size")
	}
	off += f.compSizeLen
	f.tapeSizeOff = off
	if f.tapeSize, f.tapeSizeLen, ok = readUvarintAt(b, off); !ok {
		return nil, errors.New("tape size")
	}
	off += f.tapeSizeLen
	for i := 0; i < 4; i++ {
		s := &f.sec[i]
		s.rawSizeOff = off
		if s.rawSize, s.rawSizeLen, ok = readUvarintAt(b, off); !ok {
			return nil, errors.New(secNames[i] + " raw size")
		}
		off += s.rawSizeLen
		s.blkSizeOff = off
		if s.blkSize, s.blkSizeLen, ok = readUvarintAt(b, off); !ok {
			return nil, errors.New(secNames[i] + " block size")
		}
		off += s.blkSizeLen
		s.typeOff = -1
		if s.blkSize == 0 {
			continue
		}
		if s.blkSize > uint64(len(b)-off) {
			return nil, errors.New(secNames[i] + " block beyond input")
		}
		s.typeOff = off
		s.typ = b[off]
		s.payOff = off + 1
		s.payLen = int(s.blkSize) - 1
		off += int(s.blkSize)
	}
	f.end = off
	return f, nil
}

// declaredTooBig reports whether the blob declares a size above the allocation cap anywhere the
// deserializer would allocate from it: the container's varints and, for zstd blocks, the frame header.
// It walks leniently: whatever can still be read is checked.
func declaredTooBig(b []byte) bool {
	if len(b) < 2 {
		return false
	}
	off := 1
	v, n, ok := readUvarintAt(b, off) // comp size: only compared, never allocated
	if !ok {
		return false
	}
	_ = v
	off += n
	v, n, ok = readUvarintAt(b, off) // tape size (entries of 8 bytes)
	if !ok {
		return false
	}
	if v > allocCap/8 {
		return true
	}
	off += n
	for i := 0; i < 4; i++ {
		raw, n, ok := readUvarintAt(b, off)
		if !ok {
			return false
		}
		if raw > allocCap {
			return true
		}
		off += n
		blk, n, ok := readUvarintAt(b, off)
		if !ok {
			return false
		}
		off += n
		if blk == 0 {
			continue
		}
		if blk > uint64(len(b)-off) {
			return false // rejected by the size check before anything is allocated
		}
		typ := b[off]
		pay := b[off+1 : off+int(blk)]
		if typ == 2 && zstdDeclaresTooBig(pay) {
			return true
		}
		off += int(blk)
	}
	return false
}

// zstdDeclaresTooBig parses zstd frame headers (RFC 8878 §3.1.1.1) and reports a declared
// frame content size or window size above the cap.
func zstdDeclaresTooBig(p []byte) bool {
	for frames := 0; len(p) >= 4 && frames < 64; frames++ {
		magic := binary.LittleEndian.Uint32(p)
		if magic&0xFFFFFFF0 == 0x184D2A50 { // skippable frame
			if len(p) < 8 {
				return false
			}
			sz := binary.LittleEndian.Uint32(p[4:])
			if uint64(sz)+8 > uint64(len(p)) {
				return false
			}
			p = p[8+sz:]
			continue
		}
		if magic != 0xFD2FB528 {
			return false
		}
		if len(p) < 5 {
			return false
		}
		fhd := p[4]
		off := 5
		single := fhd&0x20 != 0
		if !single {
			if len(p) <= off {
				return false
			}
			wd := p[off]
			off++
			wlog := 10 + uint(wd>>3)
			base := uint64(1) << wlog
			win := base + (base/8)*uint64(wd&7)
			if win > allocCap {
				return true
			}
		}
		switch fhd & 3 {
		case 1:
			off++
		case 2:
			off += 2
		case 3:
			off += 4
		}
		fcsLen := 0
		switch fhd >> 6 {
		case 0:
			if single {
				fcsLen = 1
			}
		case 1:
			fcsLen = 2
		case 2:
			fcsLen = 4
		case 3:
			fcsLen = 8
		}
		if len(p) < off+fcsLen {
			return false
		}
		var fcs uint64
		switch fcsLen {
		case 1:
			fcs = uint64(p[off])
		case 2:
			fcs = uint64(binary.LittleEndian.Uint16(p[off:])) + 256
		case 4:
			fcs = uint64(binary.LittleEndian.Uint32(p[off:]))
		case 8:
			fcs = binary.LittleEndian.Uint64(p[off:])
		}
		if fcs > allocCap {
			return true
		}
		// Following frames cannot be located without decoding the blocks; a later frame with a huge
		// declared size needs a valid first frame before it. Walk the block headers to find the end.
		off += fcsLen
		for {
			if len(p) < off+3 {
				return false
			}
			bh := uint32(p[off]) | uint32(p[off+1])<<8 | uint32(p[off+2])<<16
			off += 3
			last := bh&1 == 1
			btype := (bh >> 1) & 3
			bsize := int(bh >> 3)
			switch btype {
			case 1: // RLE: one byte
				off++
			case 0, 2:
				off += bsize
			default:
				return false
			}
			if off > len(p) {
				return false
			}
			if last {
				break
			}
		}
		if fhd&4 != 0 {
			off += 4
		}
		if off > len(p) {
			return false
		}
		p = p[off:]
	}
	return false
}

// ---- section codecs (same libraries as the code under test; used only to build mutants) --------------

func decodeSection(typ byte, payload []byte, rawSize int) ([]byte, error) {
	switch typ {
	case 0:
		return append([]byte(nil), payload...), nil
	case 1:
		dec := s2.NewReader(bytes.NewReader(payload))
		out := make([]byte, rawSize)
		_, err := io.ReadFull(dec, out)
		return out, err
	case 2:
		return harnessZstdDec().DecodeAll(payload, nil)
	}
	return nil, errors.New("unknown block type")
}

var hzDec *zstd.Decoder
var hzEnc *zstd.Encoder

// harness-owned codecs (never shared with the code under test; E4 runs outside bubbles)
func harnessZstdDec() *zstd.Decoder {
	if hzDec == nil {
		hzDec, _ = zstd.NewReader(nil, zstd.WithDecoderConcurrency(1), zstd.WithDecoderMaxMemory(64<<20))
	}
	return hzDec
}

func harnessZstdEnc() *zstd.Encoder {
	if hzEnc == nil {
		hzEnc, _ = zstd.NewWriter(nil, zstd.WithEncoderCRC(false), zstd.WithEncoderConcurrency(1))
	}
	return hzEnc
}

func encodeSection(typ byte, raw []byte) ([]byte, error) {
	switch typ {
	case 0:
		return append([]byte(nil), raw...), nil
	case 1:
		var buf bytes.Buffer
		w := s2.NewWriter(&buf)
		if _, err := w.Write(raw); err != nil {
			return nil, err
		}
		if err := w.Close(); err != nil {
			return nil, err
		}
		return buf.Bytes(), nil
	case 2:
		return harnessZstdEnc().EncodeAll(raw, nil), nil
	}
	return nil, errors.New("unknown block type")
}

type rawSections struct {
	version  byte
	tapeSize uint64
	typ      [4]byte
	raw      [4][]byte
	declared [4]uint64 // declared uncompressed sizes (may be made inconsistent on purpose)
	empty    [4]bool
}

func explode(b []byte) (*rawSections, error) {
	f, err := parseFraming(b)
	if err != nil {
		return nil, err
	}
	rs := &rawSections{version: f.version, tapeSize: f.tapeSize}
	for i := 0; i < 4; i++ {
		s := f.sec[i]
		rs.declared[i] = s.rawSize
		if s.typeOff < 0 {
			rs.empty[i] = true
			continue
		}
		rs.typ[i] = s.typ
		raw, err := decodeSection(s.typ, b[s.payOff:s.payOff+s.payLen], int(s.rawSize))
		if err != nil {
			return nil, err
		}
		rs.raw[i] = raw
	}
	return rs, nil
}

// assemble rebuilds a container with intact framing around the (possibly mutated) raw sections.
func (rs *rawSections) assemble() ([]byte, error) {
	var body []byte
	var tmp [binary.MaxVarintLen64]byte
	put := func(v uint64) {
		n := binary.PutUvarint(tmp[:], v)
		body = append(body, tmp[:n]...)
	}
	put(rs.tapeSize)
	for i := 0; i < 4; i++ {
		put(rs.declared[i])
		if rs.empty[i] {
			put(0)
			continue
		}
		enc, err := encodeSection(rs.typ[i], rs.raw[i])
		if err != nil {
			return nil, err
		}
		put(uint64(len(enc) + 1))
		body = append(body, rs.typ[i])
		body = append(body, enc...)
	}
	out := []byte{rs.version}
	n := binary.PutUvarint(tmp[:], uint64(len(body)))
	out = append(out, tmp[:n]...)
	return append(out, body...), nil
}
