package sim

import (
	"bytes"
	"strconv"
	"strings"
	"unicode/utf8"
)

// Document generators. Every decision is drawn from a Chooser. Small documents draw
// directly from the run's choice tape (so the shrinker can minimise them); bulk documents
// draw their content from a sub-chooser seeded by one recorded 64-bit draw.

// Family of document shapes.
const (
	FamMixed = iota
	FamDenseArrays
	FamDenseObjects
	FamZeros
	FamStrings
	FamNumbers
	FamDeep
	FamWide
	FamHugeString
	FamKeyed
	FamDedup
	FamBigMembers
	FamAtoms
	famCount
)

var famNames = [...]string{"mixed", "dense-arrays", "dense-objects", "zeros", "strings", "numbers", "deep", "wide", "huge-string", "keyed", "dedup-stress", "big-members", "atoms"}

// siteKind classifies recorded token positions (targets for defects / faults).
type siteKind uint8

const (
	siteStringBody siteKind = iota // offset inside a string body
	siteStringEnd                  // closing quote
	siteComma
	siteColon
	siteAtom   // start of true/false/null
	siteNumber // start of a number
	siteOpen   // [ or {
	siteClose  // ] or }
)

type site struct {
	k   siteKind
	off int
}

type docGen struct {
	c       *Chooser
	b       bytes.Buffer
	sites   []site
	ws      int // white-space density 0..3
	target  int
	maxDep  int
	strMax  int
	record  bool
	keyPool [][]byte
}

var strLens = []int{0, 1, 2, 3, 7, 8, 15, 16, 31, 32, 33, 63, 64, 65, 127, 128, 129, 255, 256, 511, 512, 1023, 4096}

func (g *docGen) wsp() {
	if g.ws == 0 {
		return
	}
	// density 1: rare, 2: frequent, 3: runs
	switch g.ws {
	case 1:
		if g.c.Intn("ws", 8) != 7 {
			return
		}
	case 2:
		if g.c.Intn("ws", 2) == 0 {
			return
		}
	}
	n := 1
	if g.ws == 3 {
		n = 1 + g.c.Intn("wsrun", 70)
	}
	for i := 0; i < n; i++ {
		g.b.WriteByte(" \t\r\n"[g.c.Pick("wsc", 6, 1, 1, 2)])
	}
}

// wspNoLF is white space that keeps the document on one line (for NDJSON lines).
func (g *docGen) mark(k siteKind) {
	if g.record {
		g.sites = append(g.sites, site{k, g.b.Len()})
	}
}

func (g *docGen) str(maxLen int) {
	n := strLens[g.c.Intn("slen", len(strLens))]
	if n > maxLen {
		n = g.c.Intn("slen2", maxLen+1)
	}
	g.strN(n)
}

// strN writes a JSON string literal whose *source* body is about n bytes.
func (g *docGen) strN(n int) {
	g.b.WriteByte('"')
	start := g.b.Len()
	style := g.c.Pick("sstyle", 5, 2, 2, 1) // 0 plain ascii, 1 mixed escapes, 2 unicode heavy, 3 backslash runs
	for g.b.Len()-start < n {
		if g.record && g.c.Intn("smark", 4) == 0 {
			g.mark(siteStringBody)
		}
		k := 0
		switch style {
		case 0:
			k = 0
		case 1:
			k = g.c.Pick("sk1", 10, 3, 2, 1, 1, 0)
		case 2:
			k = g.c.Pick("sk2", 3, 1, 3, 3, 3, 0)
		case 3:
			k = g.c.Pick("sk3", 4, 1, 0, 0, 0, 4)
		}
		switch k {
		case 0: // ascii
			ch := byte(0x20 + g.c.Intn("asc", 0x5f))
			if ch == '"' || ch == '\\' {
				ch = 'a'
			}
			g.b.WriteByte(ch)
		case 1: // two-character escape
			g.b.WriteByte('\\')
			g.b.WriteByte("\"\\/bfnrt"[g.c.Intn("esc", 8)])
		case 2: // \uXXXX non-surrogate
			cp := g.c.Intn("ucp", 0x10000)
			switch g.c.Intn("uctrl", 4) {
			case 0:
				cp = g.c.Intn("uctrlcp", 0x20) // control characters can only be written this way
			case 1:
				// the edges of the UTF-8 encoding widths and of the surrogate gap
				cp = []int{0x7f, 0x80, 0x7ff, 0x800, 0xfff, 0x1000, 0xd7ff, 0xe000, 0xfffd, 0xffff, 0x22, 0x5c, 0x2f}[g.c.Intn("uedge", 13)]
			}
			if cp >= 0xD800 && cp < 0xE000 {
				cp -= 0x800
			}
			g.writeU(cp)
		case 3: // surrogate pair
			hi := 0xD800 + g.c.Intn("hi", 0x400)
			lo := 0xDC00 + g.c.Intn("lo", 0x400)
			if g.c.Intn("suredge", 4) == 0 {
				hi = []int{0xD800, 0xDBFF}[g.c.Intn("hiedge", 2)]
				lo = []int{0xDC00, 0xDFFF}[g.c.Intn("loedge", 2)]
			}
			g.writeU(hi)
			g.writeU(lo)
		case 4: // raw multi-byte UTF-8
			var r rune
			switch g.c.Intn("u8", 3) {
			case 0:
				r = rune(0x80 + g.c.Intn("u8a", 0x780))
			case 1:
				r = rune(0x800 + g.c.Intn("u8b", 0xF800))
				if r >= 0xD800 && r < 0xE000 {
					r = 0x20AC
				}
			default:
				r = rune(0x10000 + g.c.Intn("u8c", 0x100000))
			}
			var tmp [4]byte
			g.b.Write(tmp[:utf8.EncodeRune(tmp[:], r)])
		case 5: // run of backslashes (always an even number of source backslashes)
			r := 1 + g.c.Intn("bsrun", 40)
			for i := 0; i < r; i++ {
				g.b.WriteString("\\\\")
			}
			if g.c.Intn("bsq", 3) == 0 {
				g.b.WriteString("\\\"")
			}
		}
	}
	g.mark(siteStringEnd)
	g.b.WriteByte('"')
}

func (g *docGen) writeU(cp int) {
	const lo = "0123456789abcdef"
	const up = "0123456789ABCDEF"
	g.b.WriteString("\\u")
	for sh := 12; sh >= 0; sh -= 4 {
		d := (cp >> sh) & 0xf
		if g.c.Intn("hexcase", 2) == 0 {
			g.b.WriteByte(lo[d])
		} else {
			g.b.WriteByte(up[d])
		}
	}
}

var intLits = []string{
	"0", "-0", "1", "-1", "7", "42", "-17", "100", "2147483647", "2147483648", "-2147483648", "-2147483649",
	"9007199254740991", "9007199254740992", "9007199254740993", "-9007199254740993",
	"9223372036854775806", "9223372036854775807", "9223372036854775808", "9223372036854775809",
	"-9223372036854775807", "-9223372036854775808", "-9223372036854775809",
	"18446744073709551614", "18446744073709551615", "18446744073709551616", "18446744073709551617",
	"99999999999999999999", "100000000000000000000", "-99999999999999999999", "123456789012345678901234567890",
}

var floatLits = []string{
	"0.0", "-0.0", "0.5", "1.5", "-2.25", "3.14159", "1e0", "1E0", "1e1", "1e+1", "1E+1", "1e-1", "1E-1", "0e0", "-0e0",
	"1.0", "10.0", "123.456", "1e21", "1e20", "1e-6", "1e-7", "0.000001", "0.0000001", "1.7976931348623157e308",
	"2.2250738585072014e-308", "5e-324", "4.9406564584124654e-324", "2.2250738585072011e-308",
	"1.0000000000000002", "0.1", "0.2", "0.30000000000000004", "100000000000000000000.0", "1e22", "1e23",
	"9007199254740993.0", "4.35", "8.5e15", "123456789012345680000", "0.1e1", "12.5E-3", "6.02214076e23",
	"9223372036854775808.0", "9.223372036854775808e18", "-9223372036854775808.0", "18446744073709551616.0", "1.8446744073709552e19",
	"4611686018427387904.0", "9223372036854774784.0", "9223372036854777856.0", "-9223372036854777856.0",
}

func (g *docGen) number() {
	g.mark(siteNumber)
	switch g.c.Pick("numk", 4, 3, 3, 3, 2) {
	case 4: // integer-valued floats and overflowing integers between 2^53 and 1e21: 17..21 significant digits
		nd := 16 + g.c.Intn("bfd", 6)
		g.b.WriteByte(byte('1' + g.c.Intn("bf0", 9)))
		for i := 1; i < nd; i++ {
			g.b.WriteByte(byte('0' + g.c.Intn("bfdig", 10)))
		}
		g.b.WriteString([]string{".0", "e0", "E+0", ".5", "", "", ".0e0"}[g.c.Intn("bfsuf", 7)])
	case 0: // small integer
		g.b.WriteString(strconv.Itoa(g.c.Intn("smallint", 2000) - 1000))
	case 1:
		g.b.WriteString(intLits[g.c.Intn("intlit", len(intLits))])
	case 2:
		g.b.WriteString(floatLits[g.c.Intn("floatlit", len(floatLits))])
	case 3: // random float spelling
		if g.c.Intn("neg", 2) == 1 {
			g.b.WriteByte('-')
		}
		g.b.WriteString(strconv.Itoa(g.c.Intn("fi", 100000)))
		if g.c.Intn("frac", 3) > 0 {
			g.b.WriteByte('.')
			nd := 1 + g.c.Intn("fd", 17)
			for i := 0; i < nd; i++ {
				g.b.WriteByte(byte('0' + g.c.Intn("fdig", 10)))
			}
			if g.c.Intn("fexp", 3) == 0 {
				g.exp()
			}
		} else {
			g.exp()
		}
	}
}

func (g *docGen) exp() {
	g.b.WriteByte("eE"[g.c.Intn("e", 2)])
	switch g.c.Intn("esign", 3) {
	case 1:
		g.b.WriteByte('+')
	case 2:
		g.b.WriteByte('-')
	}
	g.b.WriteString(strconv.Itoa(g.c.Intn("eval", 290)))
}

func (g *docGen) scalar() {
	switch g.c.Pick("sck", 3, 3, 1, 1, 1) {
	case 0:
		g.number()
	case 1:
		g.str(g.strMax)
	case 2:
		g.mark(siteAtom)
		g.b.WriteString("true")
	case 3:
		g.mark(siteAtom)
		g.b.WriteString("false")
	case 4:
		g.mark(siteAtom)
		g.b.WriteString("null")
	}
}

func (g *docGen) key() {
	switch g.c.Pick("keyk", 6, 2, 1, 2) {
	case 0:
		n := 1 + g.c.Intn("klen", 12)
		if g.c.Intn("klong", 30) == 0 {
			// long names, around powers of two (bit masks, length bytes, SIMD block sizes)
			n = []int{31, 32, 33, 63, 64, 65, 127, 128, 129, 255, 256, 257, 64 + g.c.Intn("klongn", 300)}[g.c.Intn("klongk", 13)]
		}
		g.b.WriteByte('"')
		for i := 0; i < n; i++ {
			g.b.WriteByte(byte('a' + g.c.Intn("kch", 6)))
		}
		g.mark(siteStringEnd)
		g.b.WriteByte('"')
	case 1: // from a small pool: produces duplicate and equal-length keys
		g.b.WriteByte('"')
		g.b.WriteString([]string{"a", "b", "ab", "ba", "id", "", "key", "yek", "A"}[g.c.Intn("kpool", 9)])
		g.mark(siteStringEnd)
		g.b.WriteByte('"')
	case 2:
		g.b.WriteString(`""`)
	case 3:
		g.str(40)
	}
}

func (g *docGen) full() bool { return g.b.Len() >= g.target }

func (g *docGen) value(depth int) {
	if depth >= g.maxDep || g.full() {
		g.scalar()
		return
	}
	switch g.c.Pick("valk", 4, 3, 3) {
	case 0:
		g.scalar()
	case 1:
		g.array(depth, g.c.Intn("alen", 8))
	case 2:
		g.object(depth, g.c.Intn("olen", 8))
	}
}

func (g *docGen) array(depth, n int) {
	g.mark(siteOpen)
	g.b.WriteByte('[')
	g.wsp()
	for i := 0; i < n; i++ {
		if i > 0 {
			g.mark(siteComma)
			g.b.WriteByte(',')
			g.wsp()
		}
		g.value(depth + 1)
		g.wsp()
	}
	g.mark(siteClose)
	g.b.WriteByte(']')
}

func (g *docGen) object(depth, n int) {
	g.mark(siteOpen)
	g.b.WriteByte('{')
	g.wsp()
	for i := 0; i < n; i++ {
		if i > 0 {
			g.mark(siteComma)
			g.b.WriteByte(',')
			g.wsp()
		}
		g.key()
		g.wsp()
		g.mark(siteColon)
		g.b.WriteByte(':')
		g.wsp()
		g.value(depth + 1)
		g.wsp()
	}
	g.mark(siteClose)
	g.b.WriteByte('}')
}

// DocSpec configures GenDoc.
type DocSpec struct {
	Family   int
	Target   int  // approximate size in bytes
	WS       int  // white-space density 0..3 (-1: draw)
	OneLine  bool // no LF inside (NDJSON line)
	Record   bool // record token sites
	StrMax   int
	MaxDepth int
}

// Doc is a generated document.
type Doc struct {
	B     []byte
	Sites []site
	Fam   int
}

// GenDoc generates one valid JSON document (root object or array) of roughly spec.Target bytes.
func GenDoc(c *Chooser, spec DocSpec) Doc {
	g := &docGen{c: c, target: spec.Target, record: spec.Record, strMax: spec.StrMax, maxDep: spec.MaxDepth}
	if g.strMax == 0 {
		g.strMax = 300
	}
	if g.maxDep == 0 {
		g.maxDep = 6
	}
	g.ws = spec.WS
	if g.ws < 0 {
		g.ws = c.Pick("wsdens", 4, 3, 2, 1)
	}
	switch spec.Family {
	case FamMixed:
		// root container with members until the target is reached
		obj := c.Intn("rootobj", 2) == 1
		g.mark(siteOpen)
		if obj {
			g.b.WriteByte('{')
		} else {
			g.b.WriteByte('[')
		}
		g.wsp()
		for i := 0; ; i++ {
			if i > 0 {
				g.mark(siteComma)
				g.b.WriteByte(',')
				g.wsp()
			}
			if obj {
				g.key()
				g.wsp()
				g.mark(siteColon)
				g.b.WriteByte(':')
				g.wsp()
			}
			g.value(1)
			g.wsp()
			if g.full() {
				break
			}
		}
		g.mark(siteClose)
		if obj {
			g.b.WriteByte('}')
		} else {
			g.b.WriteByte(']')
		}
	case FamDenseArrays:
		// [[],[],[[]],...]: about one structural per byte
		g.b.WriteByte('[')
		for i := 0; !g.full(); i++ {
			if i > 0 {
				g.b.WriteByte(',')
			}
			if g.ws > 0 && c.Intn("dsprinkle", 40) == 0 {
				// almost (not fully) dense: a few non-structural bytes
				switch k := c.Intn("dsp", 7); k {
				case 0, 1, 2:
					g.b.WriteString([]string{" ", "  ", "\n"}[k])
				default:
					g.b.WriteString([]string{"\"\"", "\"x\"", "12", "null"}[k-3])
					g.b.WriteByte(',')
				}
			}
			switch c.Intn("dk", 4) {
			case 0:
				g.b.WriteString("[]")
			case 1:
				g.b.WriteString("{}")
			case 2:
				g.b.WriteString("[[]]")
			case 3:
				g.b.WriteString("[{},[]]")
			}
		}
		g.b.WriteByte(']')
	case FamDenseObjects:
		g.b.WriteByte('{')
		for i := 0; !g.full(); i++ {
			if i > 0 {
				g.b.WriteByte(',')
			}
			switch c.Intn("dk", 3) {
			case 0:
				g.b.WriteString(`"":{}`)
			case 1:
				g.b.WriteString(`"":[]`)
			case 2:
				g.b.WriteString(`"a":{"":[]}`)
			}
		}
		g.b.WriteByte('}')
	case FamAtoms:
		// entries that carry no value word: a tape (and a serialized tag section) much longer than its value section
		g.b.WriteByte('[')
		for i := 0; !g.full(); i++ {
			if i > 0 {
				g.b.WriteByte(',')
			}
			g.b.WriteString([]string{"true", "false", "null", "null", "true"}[c.Intn("atom", 5)])
		}
		g.b.WriteByte(']')
	case FamZeros:
		g.b.WriteByte('[')
		for i := 0; !g.full(); i++ {
			if i > 0 {
				g.b.WriteByte(',')
			}
			g.b.WriteByte(byte('0' + c.Intn("z", 10)))
		}
		g.b.WriteByte(']')
	case FamStrings:
		// many short strings: opening quotes land on index-buffer ends
		g.b.WriteByte('[')
		for i := 0; !g.full(); i++ {
			if i > 0 {
				g.b.WriteByte(',')
				g.wsp()
			}
			g.strN(c.Intn("sl", 6))
		}
		g.b.WriteByte(']')
	case FamNumbers:
		g.b.WriteByte('[')
		for i := 0; !g.full(); i++ {
			if i > 0 {
				g.b.WriteByte(',')
				g.wsp()
			}
			g.number()
		}
		g.b.WriteByte(']')
	case FamDeep:
		d := spec.Target / 2
		if d < 1 {
			d = 1
		}
		obj := c.Intn("deepobj", 2) == 1
		for i := 0; i < d; i++ {
			if obj {
				g.b.WriteString(`{"a":`)
			} else {
				g.b.WriteByte('[')
			}
		}
		if obj {
			g.b.WriteString("{}")
		}
		for i := 0; i < d; i++ {
			if obj {
				g.b.WriteByte('}')
			} else {
				g.b.WriteByte(']')
			}
		}
	case FamWide:
		g.b.WriteByte('{')
		for i := 0; !g.full(); i++ {
			if i > 0 {
				g.b.WriteByte(',')
				g.wsp()
			}
			g.b.WriteString(`"k` + strconv.Itoa(i) + `":`)
			g.scalar()
		}
		g.b.WriteByte('}')
	case FamHugeString:
		g.b.WriteString(`["x",`)
		g.strN(spec.Target)
		g.b.WriteString(`,1]`)
	case FamBigMembers:
		// an object whose members are big containers (a gap left by SetNull/DeleteElems on one of them is long)
		g.b.WriteByte('{')
		nm := 2 + c.Intn("bmn", 3)
		for m := 0; m < nm; m++ {
			if m > 0 {
				g.b.WriteByte(',')
			}
			g.b.WriteString(`"m` + strconv.Itoa(m) + `":`)
			limit := g.b.Len() + spec.Target/nm
			kind := c.Intn("bmk", 4)
			if kind == 3 {
				g.b.WriteByte('{')
			} else {
				g.b.WriteByte('[')
			}
			for i := 0; g.b.Len() < limit; i++ {
				if i > 0 {
					g.b.WriteByte(',')
				}
				switch kind {
				case 0:
					g.b.WriteString(strconv.Itoa(i))
				case 1:
					g.b.WriteString("true")
				case 2:
					g.strN(c.Intn("bms", 5))
				case 3:
					g.b.WriteString(`"k` + strconv.Itoa(i) + `":` + strconv.Itoa(i%7))
				}
			}
			if kind == 3 {
				g.b.WriteByte('}')
			} else {
				g.b.WriteByte(']')
			}
		}
		g.b.WriteString(`,"tail":"x"}`)
	case FamDedup:
		// strings that are runs of one character in many different lengths (plus repeats): every window of the
		// serializer's dedup buffer looks alike, so colliding hash buckets and stale buffer content matter
		g.b.WriteByte('[')
		n := 2
		for n*n/2 < spec.Target {
			n++
		}
		ch := byte('a' + c.Intn("dch", 3))
		for i := 0; i < n; i++ {
			if i > 0 {
				g.b.WriteByte(',')
			}
			l := 1 + c.Intn("dlen", n)
			g.b.WriteByte('"')
			for k := 0; k < l; k++ {
				g.b.WriteByte(ch)
			}
			g.b.WriteByte('"')
		}
		g.b.WriteByte(']')
	case FamKeyed:
		// objects with unique keys k0..kn and mixed values (for deletion / lookup workloads)
		g.b.WriteByte('{')
		for i := 0; i == 0 || !g.full(); i++ {
			if i > 0 {
				g.b.WriteByte(',')
				g.wsp()
			}
			pad := ""
			if g.c.Intn("kpad", 25) == 0 {
				pad = strings.Repeat("x", []int{29, 30, 31, 61, 62, 63, 125, 126, 127, 253, 254, 255, 40 + g.c.Intn("kpadn", 400)}[g.c.Intn("kpadk", 13)])
			}
			g.b.WriteString(`"k` + strconv.Itoa(i) + pad + `":`)
			g.value(1)
		}
		g.b.WriteByte('}')
	}
	out := g.b.Bytes()
	if spec.OneLine {
		out = bytes.ReplaceAll(out, []byte{'\n'}, []byte{' '})
	}
	return Doc{B: out, Sites: g.sites, Fam: spec.Family}
}

// GenBulkDoc draws a family and a sub-seed from c and generates the content from the sub-seed.
func GenBulkDoc(c *Chooser, target int, fams []int) Doc {
	fam := fams[c.Intn("fam", len(fams))]
	ws := c.Pick("bulkws", 5, 3, 2, 1)
	seed := c.U64("docseed")
	sub := NewChooser(seed)
	return GenDoc(sub, DocSpec{Family: fam, Target: target, WS: ws, Record: true})
}

// Defect kinds for invalid variants.
const (
	DefCtrlInString = iota
	DefUnterminatedString
	DefMissingComma
	DefExtraComma
	DefMissingColon
	DefBadAtom
	DefLeadingZero
	DefLoneMinus
	DefTrailingGarbage
	DefUnbalanced
	DefTruncate
	DefBadByte
	DefWrongCloser
	defCount
)

var defNames = [...]string{"ctrl-in-string", "unterminated-string", "missing-comma", "extra-comma", "missing-colon", "bad-atom",
	"leading-zero", "lone-minus", "trailing-garbage", "unbalanced", "truncate", "bad-byte", "wrong-closer"}

// pickSite returns the offset of a site of one of the kinds, chosen by position class
// (0 first part, 1 middle, 2 last part, 3 anywhere); -1 if there is none.
func pickSite(c *Chooser, d Doc, posClass int, kinds ...siteKind) int {
	var cand []int
	for _, s := range d.Sites {
		for _, k := range kinds {
			if s.k == k {
				cand = append(cand, s.off)
			}
		}
	}
	if len(cand) == 0 {
		return -1
	}
	n := len(cand)
	lo, hi := 0, n
	switch posClass {
	case 0:
		hi = (n + 9) / 10
	case 1:
		lo, hi = n*4/10, n*6/10+1
	case 2:
		lo = n - (n+9)/10
	}
	if hi > n {
		hi = n
	}
	if lo >= hi {
		lo = 0
		hi = n
	}
	return cand[lo+c.Intn("site", hi-lo)]
}

// ApplyDefect returns a copy of d.B with one defect applied (validity is judged by the reference parser).
func ApplyDefect(c *Chooser, d Doc, kind, posClass int) []byte {
	b := d.B
	ins := func(off int, s string) []byte {
		out := make([]byte, 0, len(b)+len(s))
		out = append(out, b[:off]...)
		out = append(out, s...)
		return append(out, b[off:]...)
	}
	del := func(off, n int) []byte {
		out := make([]byte, 0, len(b))
		out = append(out, b[:off]...)
		return append(out, b[off+n:]...)
	}
	anyOff := func() int {
		o := anyOffRaw(c, len(b), posClass)
		if o >= len(b) {
			o = len(b) - 1
		}
		if o < 0 {
			o = 0
		}
		return o
	}
	_ = anyOff
	switch kind {
	case DefCtrlInString:
		if o := pickSite(c, d, posClass, siteStringBody, siteStringEnd); o >= 0 {
			if c.Intn("badescape", 3) == 0 {
				// a bad or truncated escape instead of a raw control character
				return ins(o, []string{`\x`, `\a`, `\'`, `\u12`, `\u12G4`, `\uD`, `\ `, `\0`, `\u 123`, `\U0041`}[c.Intn("badescapek", 10)])
			}
			return ins(o, string([]byte{byte(c.Intn("ctrl", 0x20))}))
		}
	case DefUnterminatedString:
		if o := pickSite(c, d, posClass, siteStringEnd); o >= 0 {
			return del(o, 1)
		}
	case DefMissingComma:
		if o := pickSite(c, d, posClass, siteComma); o >= 0 {
			out := append([]byte(nil), b...)
			out[o] = ' '
			return out
		}
	case DefExtraComma:
		if o := pickSite(c, d, posClass, siteComma, siteClose); o >= 0 {
			return ins(o, ",")
		}
	case DefMissingColon:
		if o := pickSite(c, d, posClass, siteColon); o >= 0 {
			out := append([]byte(nil), b...)
			out[o] = ' '
			return out
		}
	case DefBadAtom:
		if o := pickSite(c, d, posClass, siteAtom); o >= 0 {
			if c.Intn("atomtail", 3) == 0 {
				// a byte directly behind the complete literal, in front of its separator: true\x00, null0, falsex ...
				n := 4
				if b[o] == 'f' {
					n = 5
				}
				if o+n <= len(b) {
					return ins(o+n, []string{"\x00", "\x01", "x", "0", "\"", "\x7f", "\x80", "e"}[c.Intn("atomtailch", 8)])
				}
			}
			out := append([]byte(nil), b...)
			out[o+1+c.Intn("atomoff", 3)] = "xX_0\x00\""[c.Intn("atomch", 6)]
			return out
		}
	case DefLeadingZero:
		if o := pickSite(c, d, posClass, siteNumber); o >= 0 {
			if b[o] == '-' {
				return ins(o+1, "0")
			}
			return ins(o, "0")
		}
	case DefLoneMinus:
		if o := pickSite(c, d, posClass, siteNumber, siteAtom); o >= 0 {
			return ins(o, "-,")
		}
	case DefTrailingGarbage:
		return append(append([]byte(nil), b...), []string{"x", "]", "}", ",", "1", "\"", "{}", "[]", "\x00", "null"}[c.Intn("garb", 10)]...)
	case DefUnbalanced:
		if o := pickSite(c, d, posClass, siteOpen, siteClose); o >= 0 {
			if c.Intn("unb", 2) == 0 {
				return del(o, 1)
			}
			return ins(o, string(b[o]))
		}
	case DefWrongCloser:
		// a container closed (or opened) with the other kind of bracket: balanced in number, wrong in kind
		if o := pickSite(c, d, posClass, siteClose, siteClose, siteOpen); o >= 0 {
			out := append([]byte(nil), b...)
			switch out[o] {
			case ']':
				out[o] = '}'
			case '}':
				out[o] = ']'
			case '[':
				out[o] = '{'
			case '{':
				out[o] = '['
			}
			return out
		}
	case DefTruncate:
		return append([]byte(nil), b[:anyOff()]...)
	case DefBadByte:
		out := append([]byte(nil), b...)
		off := anyOff()
		if c.Intn("bbtokenend", 3) == 0 {
			// the byte directly behind a token (atom, number, string): a separator or closer replaced there is what the
			// token's own end check has to notice (a NUL behind true/false/null used to pass for the end of the atom)
			var cands []int
			for i := 1; i < len(b) && len(cands) < 4096; i++ {
				switch b[i] {
				case ',', ']', '}', ':', ' ', '\n', '\t', '\r':
					if p := b[i-1]; p == '"' || p >= '0' && p <= '9' || p >= 'a' && p <= 'z' {
						cands = append(cands, i)
					}
				}
			}
			if len(cands) > 0 {
				off = cands[c.Intn("bbtokenendpos", len(cands))]
			}
		}
		out[off] = []byte{0, 1, '"', '\\', '{', '}', '[', ']', ',', ':', 'x', '-', '0', 0x80, 0xff, ' ', '\n'}[c.Intn("bb", 17)]
		return out
	}
	// fallback: truncate
	if len(b) > 1 {
		return append([]byte(nil), b[:len(b)-1]...)
	}
	return []byte{}
}

func anyOffRaw(c *Chooser, n, posClass int) int {
	if n == 0 {
		return 0
	}
	switch posClass {
	case 0:
		return c.Intn("off", min(n, 64))
	case 1:
		return n/2 + c.Intn("off", min(n/2+1, 64))
	case 2:
		return n - 1 - c.Intn("off", min(n, 64))
	}
	return c.Intn("off", n)
}
