package sim

import (
	"testing"
	"testing/synctest"
)

func syncTest(t *testing.T, fn func(t *testing.T)) { synctest.Test(t, fn) }

// syncWait returns when every other goroutine of the bubble is durably blocked or has finished.
func syncWait() { synctest.Wait() }
