package sim

import (
	"fmt"
	"os"
	"regexp"
	"runtime"
	"strings"
	"sync/atomic"
	"testing"
	"testing/synctest"
	"time"
)

func syncTest(t *testing.T, fn func(t *testing.T)) { synctest.Test(t, fn) }

// waiting is 1 while a scheduler sits in a quiescence wait (synctest.Wait, or mode R's wait for the released set);
// waitEpoch changes whenever such a wait begins or ends. Both are read by the stall watchdog only.
var (
	waiting   atomic.Int32
	waitEpoch atomic.Uint64
)

// stallStep is the scheduler step whose release is being waited for (engines that support -sim.freeafter publish it).
var stallStep atomic.Int64

// stallResolvable is set while an engine runs that can re-execute a seed free-running from a given step.
var stallResolvable atomic.Bool

func beginWait() { waitEpoch.Add(1); waiting.Store(1) }
func endWait()   { waiting.Store(0); waitEpoch.Add(1) }

// syncWait returns when every other goroutine of the bubble is durably blocked or has finished.
func syncWait() {
	beginWait()
	synctest.Wait()
	endWait()
}

// Stall watchdog. The simulator decides who runs at hooks and seams; a goroutine that blocks on anything else that is
// never released - a package-level semaphore, mutex or channel shared between callers - is outside its control:
// synctest.Wait does not return (such a goroutine is not "durably blocked") and the run would sit there until the
// orchestrator's coarse stall timer. This goroutine runs outside every bubble on the real clock, notices that one
// quiescence wait has lasted stallAfter, and looks at the goroutine dump: if a goroutine is *blocked* (not running)
// inside library code that is not one of our hook parks, the process reports it and exits 3; the orchestrator then
// treats it like any crash (re-runs the seed index in a fresh child, which must stall the same way, and requires a
// library frame). Busy goroutines are left to the orchestrator's timer, exactly as before. Wall-clock only triggers
// the look; the verdict is the blocked library goroutine.
const stallAfter = 40 * time.Second

var blockedStates = regexp.MustCompile(`^goroutine \d+ [^\[]*\[(chan receive|chan send|select|sync\.Mutex\.Lock|sync\.RWMutex\.R?Lock|semacquire|sync\.Cond\.Wait|sync\.WaitGroup\.Wait)[^\]]*\]:`)

func startStallWatchdog() {
	go func() {
		var epoch uint64
		var since time.Time
		for {
			time.Sleep(time.Second)
			if waiting.Load() != 1 {
				since = time.Time{}
				continue
			}
			e := waitEpoch.Load()
			if e != epoch || since.IsZero() {
				epoch, since = e, time.Now()
				continue
			}
			if time.Since(since) < stallAfter {
				continue
			}
			buf := make([]byte, 8<<20)
			buf = buf[:runtime.Stack(buf, true)]
			var culprits, rest []string
			busy := false
			for _, g := range strings.Split(string(buf), "\n\n") {
				if (strings.Contains(g, "[running") || strings.Contains(g, "[runnable")) && !strings.Contains(g, "startStallWatchdog") {
					busy = true // somebody is computing: whatever is blocked may simply be waiting for that
				}
				lib := false
				for _, l := range strings.Split(g, "\n") {
					if strings.HasPrefix(l, "github.com/minio/simdjson-go.") {
						if strings.HasPrefix(l, "github.com/minio/simdjson-go.simHook") || strings.HasPrefix(l, "github.com/minio/simdjson-go.Sim") {
							lib = false // parked by the simulator itself
							break
						}
						lib = true
					}
				}
				if lib && blockedStates.MatchString(g) && !strings.Contains(g, ".(*Sched).Park") {
					culprits = append(culprits, g)
				} else {
					rest = append(rest, g)
				}
			}
			if busy || len(culprits) == 0 || waitEpoch.Load() != epoch {
				// a goroutine is still computing, or nothing is blocked in library code: the orchestrator's timer owns that case
				since = time.Now().Add(stallAfter) // look again after another 2 x stallAfter
				continue
			}
			// Goroutines the simulator itself holds in the middle of a library call (parked at a pool-tenancy hook): in a
			// real execution they would go on and might release what the blocked goroutine waits for. A cooperative
			// scheduler cannot tell the two cases apart (it cannot resume them from here), so this observation is not
			// a verdict: exit 4, "simulator limitation"; the free-running mode decides such changes.
			held := 0
			for _, g := range rest {
				if strings.Contains(g, ".(*Sched).Park") && strings.Contains(g, "simdjson-go.simHook(") {
					held++
				}
			}
			if held > 0 && !stallResolvable.Load() {
				// engines without the -sim.freeafter resolution: behave as before this watchdog existed (the
				// orchestrator's stall timer and its fresh-child confirmation own the case)
				since = time.Now().Add(stallAfter)
				continue
			}
			if held > 0 {
				fmt.Fprintf(os.Stderr, "SIM-LIMITATION: step=%d a goroutine is blocked in library code on something outside the simulation while the simulator holds %d goroutine(s) parked inside library calls; not a verdict (no progress for %v)\n\n%s\n", stallStep.Load(), held, stallAfter, strings.Join(culprits, "\n\n"))
				os.Exit(4)
			}
			fmt.Fprintf(os.Stderr, "fatal error: simulation stalled: goroutine blocked outside the simulator's control (no progress for %v)\n\n%s\n\n--- other goroutines ---\n%s\n", stallAfter, strings.Join(culprits, "\n\n"), strings.Join(rest, "\n\n"))
			os.Exit(3)
		}
	}()
}
