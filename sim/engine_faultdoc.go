package sim

import (
	"bytes"
	"errors"
	"fmt"
	"runtime"
	"runtime/debug"
	"strings"
	"sync/atomic"

	simdjson "github.com/minio/simdjson-go"
)

// C05: faulted *documents*. Every case is a truncation / substitution / token edit / random
// mutation of a valid document (or an adversarial shape), parsed from simulator-owned memory
// placed flush against a PROT_NONE guard page.

type deadlockSentinel struct{ detail string }

// hookTap, when set, sees every hook event before the scheduler (used by the sync-path deadlock monitor).
var hookTap atomic.Pointer[func(ev simdjson.SimEvent, h simdjson.SimHandle, arg int)]

func setTap(f func(ev simdjson.SimEvent, h simdjson.SimHandle, arg int)) {
	if f == nil {
		hookTap.Store(nil)
		return
	}
	hookTap.Store(&f)
}

// syncDeadlockTap returns a hook tap for parses that run directly on the calling goroutine: on the
// synchronous path a send into a full channel or a blocking receive from an empty one can never complete.
// The tap panics with a deadlockSentinel instead of letting the process hang.
func syncDeadlockTap() func(ev simdjson.SimEvent, h simdjson.SimHandle, arg int) {
	base := simdjson.SimProbeSnapshot()
	return func(ev simdjson.SimEvent, h simdjson.SimHandle, arg int) {
		if ev != simdjson.SimPSend && ev != simdjson.SimCRecv {
			return
		}
		now := simdjson.SimProbeSnapshot()
		if now[1] == base[1] { // sync_path probe did not fire: concurrent path, the other stage exists
			return
		}
		_, _, capc, lenc := simdjson.SimRing(h)
		if ev == simdjson.SimPSend && capc > 0 && lenc >= capc {
			panic(deadlockSentinel{fmt.Sprintf("sync path: producer about to send into a full channel (%d/%d) with no consumer running", lenc, capc)})
		}
		// on the sync path stage 1 has finished before anything is received: a blocking receive from an
		// empty channel can never be satisfied (arg 3 is the non-blocking drain after a stage-2 failure)
		if ev == simdjson.SimCRecv && arg != 3 && capc > 0 && lenc == 0 {
			panic(deadlockSentinel{"sync path: consumer about to receive from an empty channel after the producer has finished"})
		}
	}
}

type docCase struct {
	r        *Run
	cfg      parseCfg
	reuse    *simdjson.ParsedJson
	useReuse bool
	strGuard bool // reused objects get a string buffer that ends at a guard page
	strSlack int  // bytes of capacity beyond the parser's own minimum for that buffer
	seen     map[uint64]bool
	nontriv  int
	accepted int
	rejected int
	bubble   int
	oob      int
}

// parseGuarded parses in (placed against a guard page) directly on this goroutine with the
// sync-path deadlock monitor armed.
func (dc *docCase) parseGuarded(in []byte) (pj *simdjson.ParsedJson, perr error, err error) {
	g := guardAlloc(len(in) + 1)
	buf := in
	if g != nil {
		buf = g.place(in, dc.r.C.Intn("guardend", 4) != 0)
	}
	setTap(syncDeadlockTap())
	defer func() { setTap(nil) }()
	err = safely(func() error {
		var ru *simdjson.ParsedJson
		if dc.useReuse {
			ru = dc.reuse
			if ru != nil && dc.strGuard {
				// the reused object's string buffer (an exported field; callers carve such buffers from their own slabs)
				// ends at a guard page: a store past its capacity faults instead of landing in a neighbour
				size := len(bytes.TrimSpace(buf)) / 10
				if size < 128 {
					size = 128
				}
				size += dc.strSlack
				if sg := guardAllocStr(size); sg != nil {
					ru.Strings = &simdjson.TStrings{B: sg.data[len(sg.data)-size:][:0:size]}
				}
			}
		}
		pj, perr = doParse(buf, ru, dc.cfg)
		if perr == nil && pj != nil && pj.Strings != nil && dc.strGuard {
			// results outlive this call: move the strings out of the shared guard mapping
			pj.Strings.B = append([]byte(nil), pj.Strings.B...)
		}
		return nil
	})
	return
}

// traversable is the title clause of C05 for results the parser itself returned: the structural walks and
// MarshalJSON must not only terminate without panic (traverseAll) but also get through the document.
func traversable(r *Run, pj *simdjson.ParsedJson, what string) bool {
	if _, err := WalkInto(pj); err != nil {
		r.violate("untraversable", "AdvanceInto-walk", fmt.Sprintf("%s: accepted, but the AdvanceInto walk fails: %v", what, err))
		return false
	}
	if _, err := WalkForEach(pj); err != nil {
		r.violate("untraversable", "ForEach-walk", fmt.Sprintf("%s: accepted, but the ForEach walk fails: %v", what, err))
		return false
	}
	if _, err := WalkAdvance(pj); err != nil {
		// (includes: PeekNext announces what Advance returns, and an exhausted iterator reports no type - loops
		// written against Type() terminate)
		r.violate("untraversable", "Advance-walk", fmt.Sprintf("%s: accepted, but the Advance walk fails: %v", what, err))
		return false
	}
	if _, err := MarshalRoot(pj); err != nil {
		r.violate("untraversable", "MarshalJSON", fmt.Sprintf("%s: accepted, but MarshalJSON fails: %v", what, err))
		return false
	}
	// the Elements of a top-level object stay usable after being marshalled (a read)
	var problem string
	err := safely(func() error {
		it := pj.Iter()
		if it.Advance() != simdjson.TypeRoot {
			return nil
		}
		t, root, e := it.Root(nil)
		if e != nil || t != simdjson.TypeObject {
			return nil
		}
		obj, e := root.Object(nil)
		if e != nil {
			return nil
		}
		els, e := obj.Parse(nil)
		if e != nil || els == nil {
			return nil
		}
		first, e1 := els.MarshalJSON()
		if e1 != nil {
			return nil
		}
		second, e2 := els.MarshalJSON()
		if e2 != nil || !bytes.Equal(first, second) {
			problem = fmt.Sprintf("Elements.MarshalJSON a second time on the same Elements: %v (%d bytes against %d)", e2, len(second), len(first))
		}
		return nil
	})
	if err != nil {
		walkerFail(r, "untraversable", what+": Elements of the top-level object", err)
		return false
	}
	if problem != "" {
		r.violate("untraversable", "Elements-after-marshal", what+": "+problem)
		return false
	}
	return true
}

func (dc *docCase) try(in []byte, kind string) bool {
	r := dc.r
	h := hashBytes(in)
	if dc.seen[h] {
		return true
	}
	dc.seen[h] = true
	r.Res.Evals++
	r.stat("fault_"+kind, 1)
	if len(bytes.TrimSpace(in)) > 0 {
		dc.nontriv++
	}
	what := fmt.Sprintf("%s of a %s document (%d bytes, %s, reuse %v)", kind, r.Res.Sample["base"], len(in), dc.cfg, dc.useReuse)
	fail := func(oracle, disc, detail string) bool {
		r.violate(oracle, disc, detail)
		r.Res.Inputs["doc"] = b64(in)
		return false
	}
	if len(in) > 4096 {
		// large inputs run under a drawn pipeline schedule: a stuck stage is a simulator-visible deadlock
		dc.bubble++
		oldProcs := runtime.GOMAXPROCS([]int{1, 2, 16}[r.C.Intn("gomaxprocs", 3)])
		defer runtime.GOMAXPROCS(oldProcs)
		kindP := r.C.Intn("policy", polCount)
		pol := newPipePolicy(r.C, kindP, len(in)/300+8)
		r.stat("policy_"+polNames[kindP], 1)
		outs, stuck := pipeExec(r, [][]byte{in}, []parseCfg{dc.cfg}, false, pol, polNames[kindP])
		if r.failed() || stuck {
			r.Res.Inputs["doc"] = b64(in)
			return false
		}
		if len(outs) != 1 {
			return fail("M-term", "incomplete", what+": the call did not return")
		}
		o := outs[0]
		if o.panicV != nil {
			return fail("panic", panicSig(o.panicV), fmt.Sprintf("%s: %v", what, o.panicV))
		}
		if o.ok == (o.errText != "") {
			return fail("result-xor-error", "both-or-neither", what+": result and error are not exclusive")
		}
		if o.ok {
			dc.accepted++
			if !traverseAll(r, o.pj, what) || !traversable(r, o.pj, what) {
				r.Res.Inputs["doc"] = b64(in)
				return false
			}
		} else {
			dc.rejected++
		}
		return true
	}
	pj, perr, err := dc.parseGuarded(in)
	if err != nil {
		var wp *WalkPanic
		if errors.As(err, &wp) {
			if ds, ok := wp.Val.(deadlockSentinel); ok {
				return fail("M-term", "deadlock-sync", what+": "+ds.detail)
			}
			msg := fmt.Sprint(wp.Val)
			if strings.Contains(msg, "fault address") || strings.Contains(msg, "invalid memory address") || strings.Contains(msg, "SIGSEGV") {
				if ae, ok := wp.Val.(interface{ Addr() uintptr }); ok && inStrGuard(ae.Addr()) {
					return fail("oob-write", "guard-page:"+wp.Stack, fmt.Sprintf("%s: store past the capacity of the reused object's string buffer (guard page hit): %v", what, wp))
				}
				return fail("oob-read", "guard-page:"+wp.Stack, fmt.Sprintf("%s: access outside the input buffer (guard page hit): %v", what, wp))
			}
			return fail("panic", panicSig(wp), fmt.Sprintf("%s: %v", what, wp))
		}
	}
	if (pj == nil) == (perr == nil) {
		return fail("result-xor-error", "both-or-neither", fmt.Sprintf("%s: result=%v error=%v", what, pj != nil, perr))
	}
	if perr != nil {
		dc.rejected++
		return true
	}
	dc.accepted++
	if !traverseAll(r, pj, what) || !traversable(r, pj, what) {
		r.Res.Inputs["doc"] = b64(in)
		return false
	}
	if dc.useReuse {
		dc.reuse = pj
	}
	return true
}

var docAlphabet = []byte{0, 1, 0x1f, ' ', '\n', '"', '\\', '{', '}', '[', ']', ',', ':', '-', '0', '9', '.', 'e', 't', 'f', 'n', 'u', 'x', 0x7f, 0x80, 0xc0, 0xff}

// genFaultBase draws the base document of a C05 run.
func genFaultBase(r *Run) (d Doc, desc string) {
	c := r.C
	cls := c.Pick("basecls", 4, 3, 3, 3, 2, 2, 2, 2, 1)
	switch cls {
	case 0: // tiny
		d = GenDoc(c, DocSpec{Family: FamMixed, Target: 2 + c.Intn("tiny", 60), WS: c.Pick("bws", 4, 2, 1), Record: true, MaxDepth: 3, StrMax: 20})
		desc = "tiny"
	case 1: // around one 64-byte block
		d = GenDoc(c, DocSpec{Family: []int{FamMixed, FamStrings, FamNumbers}[c.Intn("f64", 3)], Target: 56 + c.Intn("b64", 16), WS: c.Pick("bws", 4, 2, 1), Record: true, MaxDepth: 3, StrMax: 40})
		desc = "block-64"
	case 2: // around the 448/512-byte string padding boundary
		d = GenDoc(c, DocSpec{Family: []int{FamMixed, FamStrings, FamHugeString}[c.Intn("f512", 3)], Target: 430 + c.Intn("b512", 100), WS: c.Pick("bws", 4, 2, 1), Record: true, MaxDepth: 4, StrMax: 520})
		desc = "pad-512"
	case 3:
		d = GenDoc(c, DocSpec{Family: FamMixed, Target: 600 + c.Intn("mid", 3400), WS: c.Pick("bws", 4, 2, 1), Record: true, MaxDepth: 5, StrMax: 200})
		desc = "1k-4k"
	case 4: // dense structurals: decides how many index buffers an input length needs
		d = GenBulkDoc(c, 1400+c.Intn("dense", 7000), []int{FamDenseArrays, FamDenseObjects, FamZeros})
		desc = "dense"
	case 5: // around the sync/async threshold
		d = GenBulkDoc(c, 8192+c.Intn("thr", 9)-4, []int{FamMixed, FamDenseArrays, FamStrings, FamZeros, FamWide})
		desc = "threshold-8k"
	case 6: // large
		d = GenBulkDoc(c, 9000+c.Intn("large", 120000), pipeFams)
		desc = "large"
	case 8: // dense structurals, then a long token without any structural inside: an index buffer can come up empty
		n := 1300 + c.Intn("dprefix", 3000)
		if c.Intn("dalign", 2) == 0 {
			// the property names the 1408-entry index buffers: put the token start on such a boundary (+-3)
			n = 1408*(1+c.Intn("dk1408", 3)) - 1 + c.Intn("dk1408d", 7) - 3
		}
		var b bytes.Buffer
		b.WriteByte('[')
		for b.Len() < n {
			item := []string{"[],", "{},", "0,", "[[]],"}[c.Intn("dp", 4)]
			if b.Len()+len(item) > n {
				item = "0,0,0,0,"[:2*((n-b.Len())/2)]
				if item == "" {
					item = "0,"
				}
			}
			b.WriteString(item)
		}
		tail := 1 + c.Intn("dtail", 700)
		switch c.Intn("dtailkind", 3) {
		case 0:
			b.WriteByte('"')
			b.Write(bytes.Repeat([]byte{'a'}, tail))
			if c.Intn("dclose", 2) == 0 {
				b.WriteString("\"]")
			}
		case 1:
			b.Write(bytes.Repeat([]byte{'7'}, tail))
			if c.Intn("dclose", 2) == 0 {
				b.WriteString("]")
			}
		case 2:
			b.WriteByte('"')
			b.Write(bytes.Repeat([]byte{'\\', '\\'}, tail/2+1))
			if c.Intn("dclose", 2) == 0 {
				b.WriteString("\"]")
			}
		}
		d = Doc{B: append([]byte(nil), b.Bytes()...)}
		desc = "dense-then-long-token"
	case 7: // adversarial nesting depth
		depth := 10 + c.Intn("depth", 3000)
		switch c.Intn("verydeep", 8) {
		case 0, 1:
			depth = 3000 + c.Intn("depth2", 7000)
		case 2:
			depth = 60000 + c.Intn("depth3", 40000)
		}
		d = GenDoc(c, DocSpec{Family: FamDeep, Target: depth * 2, Record: false})
		desc = fmt.Sprintf("deep(%d)", depth)
	}
	return
}

// RunFaultDoc is one run of C05.
func RunFaultDoc(r *Run) {
	c := r.C
	debug.SetPanicOnFault(true)
	cfg := drawCfg(c, true)
	d, desc := genFaultBase(r)
	if cfg.ND && c.Intn("newlineruns", 8) == 0 {
		// NDJSON: documents separated by runs of line feeds (each a structural of its own in that mode)
		var nb []byte
		nb, desc = genNewlineRuns(c)
		d = Doc{B: nb}
	}
	base := d.B
	if cfg.ND && !bytes.Contains(base, []byte{'\n'}) && c.Intn("ndjoin", 2) == 0 {
		d2 := GenDoc(c, DocSpec{Family: FamMixed, Target: 30, OneLine: true})
		base = append(append(append([]byte(nil), base...), '\n'), d2.B...)
		base = append(base, '\n')
	}
	r.Res.Sample["base"] = desc
	r.Res.Sample["cfg"] = cfg.String()
	r.fp.u64(hashBytes(base))
	dc := &docCase{r: r, cfg: cfg, seen: map[uint64]bool{}, useReuse: c.Intn("reuse", 3) == 0}
	if dc.useReuse {
		dc.strGuard = c.Intn("strguard", 2) == 0
		dc.strSlack = c.Intn("strslack", 48)
	}
	defer func() {
		r.Res.Distinct = dc.nontriv
		r.Res.NonTrivial = dc.nontriv > 0
		r.stat("accepted_results_traversed", dc.accepted)
		r.stat("rejected_with_error", dc.rejected)
		r.stat("cases_under_pipeline_schedule", dc.bubble)
	}()
	if !dc.try(base, "unmodified") {
		return
	}
	big := len(base) > 4096
	plan := c.Pick("plan", 4, 4, 3, 2, 2)
	r.Res.Sample["plan"] = []string{"truncations", "substitutions", "token-edits", "random", "double"}[plan]
	budget := 4000
	if big {
		budget = 24
	}
	switch plan {
	case 0: // truncation at every offset (boundary-biased when large)
		if !big {
			for n := 0; n < len(base); n++ {
				if !dc.try(base[:n], "truncation") {
					return
				}
			}
			r.Res.Exhaustive = true
		} else {
			for k := 0; k < budget; k++ {
				var n int
				switch c.Intn("truncwhere", 5) {
				case 0:
					n = c.Intn("t0", 128)
				case 1:
					n = len(base) - 1 - c.Intn("t1", 128)
				case 2:
					n = 8192 + c.Intn("t2", 9) - 4
				case 3: // around a multiple of 64
					n = (c.Intn("t3", len(base)/64+1))*64 + c.Intn("t3o", 3) - 1
				default:
					n = c.Intn("t4", len(base))
				}
				if n < 0 || n > len(base) {
					continue
				}
				if !dc.try(base[:n], "truncation") {
					return
				}
			}
		}
	case 1: // substitution alphabet at every offset
		if !big && len(base)*len(docAlphabet) <= 40000 {
			for i := range base {
				for _, s := range docAlphabet {
					if base[i] == s {
						continue
					}
					m := append([]byte(nil), base...)
					m[i] = s
					if !dc.try(m, "substitution") {
						return
					}
				}
			}
			r.Res.Exhaustive = true
		} else {
			for k := 0; k < budget; k++ {
				m := append([]byte(nil), base...)
				i := c.Intn("subpos", len(m))
				if c.Intn("subedge", 3) == 0 {
					i = len(m) - 1 - c.Intn("subtail", min(len(m), 70))
				}
				m[i] = docAlphabet[c.Intn("subch", len(docAlphabet))]
				if !dc.try(m, "substitution") {
					return
				}
			}
		}
	case 2: // token delete / duplicate / swap and the defect catalogue
		n := budget
		if n > 400 {
			n = 400
		}
		for k := 0; k < n; k++ {
			var m []byte
			if len(d.Sites) > 0 && c.Intn("catalogue", 2) == 0 {
				m = ApplyDefect(c, Doc{B: base, Sites: d.Sites}, c.Intn("defkind", defCount), c.Intn("defpos", 4))
			} else {
				i := c.Intn("tokpos", len(base))
				l := 1 + c.Intn("toklen", 8)
				if i+l > len(base) {
					l = len(base) - i
				}
				switch c.Intn("tokop", 3) {
				case 0:
					m = splice(base, i, l, nil)
				case 1:
					m = splice(base, i, 0, base[i:i+l])
				case 2:
					j := c.Intn("tokpos2", len(base)-l+1)
					m = append([]byte(nil), base...)
					tmp := append([]byte(nil), m[i:i+l]...)
					copy(m[i:i+l], m[j:j+l])
					copy(m[j:j+l], tmp)
				}
			}
			if !dc.try(m, "token-edit") {
				return
			}
		}
	case 3: // random bytes, random structural soup
		n := budget
		if n > 600 {
			n = 600
		}
		for k := 0; k < n; k++ {
			ln := c.Intn("rndlen", 300)
			if big {
				ln = 8000 + c.Intn("rndlenbig", 20000)
			}
			m := make([]byte, ln)
			rng := splitmix{c.U64("rndseed")}
			soup := c.Intn("soup", 2) == 1
			for i := range m {
				if soup {
					m[i] = soupChars[rng.next()%uint64(len(soupChars))]
				} else {
					m[i] = byte(rng.next())
				}
			}
			if !dc.try(m, "random") {
				return
			}
		}
	case 4: // double faults
		n := budget
		if n > 1500 {
			n = 1500
		}
		for k := 0; k < n; k++ {
			m := append([]byte(nil), base...)
			for f := 0; f < 2 && len(m) > 0; f++ {
				i := c.Intn("dpos", len(m))
				switch c.Intn("dkind", 3) {
				case 0:
					m[i] = docAlphabet[c.Intn("dsub", len(docAlphabet))]
				case 1:
					m = m[:i]
				case 2:
					m = splice(m, i, 1, nil)
				}
			}
			if !dc.try(m, "double") {
				return
			}
		}
	}
}

const soupChars = "{}[],:\"\\ \n01-etfn.u"
