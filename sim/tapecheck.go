package sim

import (
	"fmt"

	simdjson "github.com/minio/simdjson-go"
)

// Tape invariant checker: C17's text made executable, written from the README's tape
// description and the property statement, not from the implementation.
//
//   - the tape is a sequence of root pairs: an opening root whose payload is the index one past
//     its closing root, and a closing root whose payload is the index of its opening root;
//   - every object/array start carries the index one past its matching end, the end carries the
//     index of its start, and scopes nest properly;
//   - strings carry (buffer flag | offset) and their length in the next word, in range of the
//     buffer they point into; numbers carry their 64-bit payload in the next word;
//   - no other tags occur; NOP entries are accepted only when allowNop is set (deserialized tapes)
//     and then every NOP's skip count must land exactly on the next live entry.
const (
	stringBufBit  = uint64(0x80_0000_0000_0000)
	stringBufMask = uint64(0x7fffffffffffff)
	valueMask     = uint64(0xff_ffff_ffff_ffff)
)

// CheckTape returns nil if the tape obeys the documented format.
func CheckTape(pj *simdjson.ParsedJson, allowNop bool) error {
	tape := pj.Tape
	n := len(tape)
	if n == 0 {
		return fmt.Errorf("empty tape")
	}
	type frame struct {
		start   int
		end     int // index of the closing tag
		kind    byte
		wantKey bool
		count   int
	}
	var stack []frame
	i := 0
	for i < n {
		e := tape[i]
		tag := byte(e >> 56)
		pay := e & valueMask
		if len(stack) == 0 {
			// must be an opening root
			if tag != 'r' {
				return fmt.Errorf("tape[%d]: expected opening root, found tag %q", i, tag)
			}
			if pay <= uint64(i)+1 || pay > uint64(n) {
				return fmt.Errorf("tape[%d]: opening root payload %d is not one past a later closing root (tape length %d)", i, pay, n)
			}
			c := tape[pay-1]
			if byte(c>>56) != 'r' {
				return fmt.Errorf("tape[%d]: opening root points one past index %d which has tag %q, not a root", i, pay-1, byte(c>>56))
			}
			if c&valueMask != uint64(i) {
				return fmt.Errorf("tape[%d]: closing root payload %d does not point back to its opening root %d", pay-1, c&valueMask, i)
			}
			stack = append(stack, frame{start: i, end: int(pay - 1), kind: 'r'})
			i++
			continue
		}
		f := &stack[len(stack)-1]
		if i == f.end {
			// closing tag of the innermost scope
			var want byte
			switch f.kind {
			case 'r':
				want = 'r'
				if f.count != 1 {
					return fmt.Errorf("tape[%d]: root scope holds %d values, expected exactly 1", f.start, f.count)
				}
			case '{':
				want = '}'
				if !f.wantKey {
					return fmt.Errorf("tape[%d]: object ends after a key without value", i)
				}
			case '[':
				want = ']'
			}
			if tag != want {
				return fmt.Errorf("tape[%d]: expected closing tag %q for scope opened at %d, found %q", i, want, f.start, tag)
			}
			if pay != uint64(f.start) {
				return fmt.Errorf("tape[%d]: closing tag payload %d does not point back to its start %d", i, pay, f.start)
			}
			stack = stack[:len(stack)-1]
			i++
			continue
		}
		if i > f.end {
			return fmt.Errorf("tape[%d]: ran past the end %d of scope opened at %d", i, f.end, f.start)
		}
		if tag == 'N' {
			if !allowNop {
				return fmt.Errorf("tape[%d]: NOP tag in a freshly parsed tape", i)
			}
			// a run of NOP entries: every one of them must land exactly on the next live entry (linear scan)
			e := i
			for e < f.end && byte(tape[e]>>56) == 'N' {
				e++
			}
			for j := i; j < e; j++ {
				if p := tape[j] & valueMask; p != uint64(e-j) {
					switch {
					case p == 0 || uint64(j)+p > uint64(f.end):
						return fmt.Errorf("tape[%d]: NOP skip %d leaves its scope (end %d)", j, p, f.end)
					case uint64(j)+p < uint64(e):
						return fmt.Errorf("tape[%d]: NOP skip %d lands on another NOP at %d, not on the next live entry %d", j, p, uint64(j)+p, e)
					default:
						return fmt.Errorf("tape[%d]: NOP skip %d jumps over the live entry at %d", j, p, e)
					}
				}
			}
			i = e
			continue
		}
		// a value (or an object key)
		isKey := f.kind == '{' && f.wantKey
		if isKey && tag != '"' {
			return fmt.Errorf("tape[%d]: object key position holds tag %q", i, tag)
		}
		if f.kind == 'r' && tag != '{' && tag != '[' && !allowNop {
			// the parser only accepts objects and arrays at the top level; an edited tape may hold a scalar there
			// (SetNull on the top-level container, then SetBool on that null), which the format does not forbid
			return fmt.Errorf("tape[%d]: root holds tag %q, expected object or array", i, tag)
		}
		adv := 1
		switch tag {
		case '"':
			if i+1 >= f.end {
				return fmt.Errorf("tape[%d]: string length word falls outside its scope", i)
			}
			length := tape[i+1]
			off := pay & stringBufMask
			if pay&stringBufBit != 0 {
				if pj.Strings == nil || off+length > uint64(len(pj.Strings.B)) || off+length < off {
					sl := 0
					if pj.Strings != nil {
						sl = len(pj.Strings.B)
					}
					return fmt.Errorf("tape[%d]: string (buffer) offset %d length %d outside string buffer of %d bytes", i, off, length, sl)
				}
			} else {
				if off+length > uint64(len(pj.Message)) || off+length < off {
					return fmt.Errorf("tape[%d]: string (message) offset %d length %d outside message of %d bytes", i, off, length, len(pj.Message))
				}
			}
			adv = 2
		case 'l', 'u':
			if pay != 0 {
				return fmt.Errorf("tape[%d]: integer tag carries payload %#x", i, pay)
			}
			if i+1 >= f.end {
				return fmt.Errorf("tape[%d]: number value word falls outside its scope", i)
			}
			adv = 2
		case 'd':
			if pay > 1 {
				return fmt.Errorf("tape[%d]: float tag carries unknown flags %#x", i, pay)
			}
			if i+1 >= f.end {
				return fmt.Errorf("tape[%d]: number value word falls outside its scope", i)
			}
			adv = 2
		case 'n', 't', 'f':
			if pay != 0 {
				return fmt.Errorf("tape[%d]: tag %q carries payload %#x", i, tag, pay)
			}
		case '{', '[':
			if pay <= uint64(i)+1 {
				return fmt.Errorf("tape[%d]: %q payload %d does not point one past a later end tag", i, tag, pay)
			}
			if pay-1 >= uint64(f.end) {
				return fmt.Errorf("tape[%d]: %q payload %d reaches beyond its parent scope (end %d)", i, tag, pay, f.end)
			}
			if isKey {
				return fmt.Errorf("tape[%d]: container in key position", i)
			}
			if f.kind == '{' {
				f.wantKey = true
			}
			f.count++
			stack = append(stack, frame{start: i, end: int(pay - 1), kind: tag, wantKey: true})
			i++
			continue
		default:
			return fmt.Errorf("tape[%d]: undocumented tag %q (%#x)", i, tag, tag)
		}
		if isKey {
			f.wantKey = false
		} else {
			if f.kind == '{' {
				f.wantKey = true
			}
			f.count++
		}
		i += adv
	}
	if len(stack) != 0 {
		return fmt.Errorf("tape ended inside scope opened at %d", stack[len(stack)-1].start)
	}
	return nil
}
