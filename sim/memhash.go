package sim

import (
	"fmt"
	"unsafe"
)

// The serializer deduplicates strings through a 16K-entry table indexed by runtime.memhash with a
// process-random seed. C11's quantifier names "colliding hash buckets" explicitly; random documents
// practically never produce a *chosen* collision (2^-14 per pair), so the workload generator searches for
// one with the same hash function. This is workload bias only: if the implementation changed its hash,
// the scenario would merely lose its aim; no oracle depends on it.

//go:linkname runtimeMemhash runtime.memhash
//go:noescape
func runtimeMemhash(p unsafe.Pointer, h, s uintptr) uintptr

func stringBucket(b []byte) uint64 {
	if len(b) == 0 {
		return uint64(runtimeMemhash(unsafe.Pointer(&struct{}{}), 0, 0)) & (1<<14 - 1)
	}
	return uint64(runtimeMemhash(unsafe.Pointer(&b[0]), 0, uintptr(len(b)))) & (1<<14 - 1)
}

// findBucketMate returns a string prefix+<digits> that falls into the same dedup bucket as target.
func findBucketMate(c *Chooser, target []byte, prefix string) []byte {
	want := stringBucket(target)
	start := c.Intn("matestart", 1<<20)
	for i := 0; i < 1<<20; i++ {
		cand := []byte(fmt.Sprintf("%s%07d", prefix, (start+i)%(1<<20)))
		if stringBucket(cand) == want && string(cand) != string(target) {
			return cand
		}
	}
	return nil
}
