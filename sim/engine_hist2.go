package sim

import (
	"bytes"
	"encoding/base64"
	"encoding/binary"
	"encoding/gob"
	"fmt"
	"os"
	"path/filepath"
	"strconv"
	"time"

	simdjson "github.com/minio/simdjson-go"
)

// ---- profile serial (C11) ----------------------------------------------------------------------

type simBlob struct {
	b     []byte
	model []*MV
	nd    bool
	mode  int
	lent  bool // handed to Deserialize as it is (not as a private copy): it must still hold the same document later
}

type serState struct {
	s    *simdjson.Serializer
	mode int
	uses int
}

// makeEditedObj parses a drawn document and applies a few drawn edits.
func makeEditedObj(r *Run, what string, big bool) *simObj {
	return makeEditedObjSized(r, what, big, false)
}

// makeEditedObjSized: huge documents produce tapes beyond the serializer's 64 KiB tag/value flush blocks.
func makeEditedObjSized(r *Run, what string, big, huge bool) *simObj {
	c := r.C
	cfg := drawCfg(c, true)
	var doc []byte
	if c.Intn("dedupstress", 12) == 0 {
		cfg.ND = false
		doc = GenBulkDoc(c, 20000+c.Intn("dedupsz", 200000), []int{FamDedup}).B
		r.stat("dedup_stress_docs", 1)
	} else if huge && c.Intn("mega", 4) == 0 {
		// sections beyond 1 MiB (codec block sizes, not only the serializer's own 64 KiB flush blocks)
		cfg.ND = false
		var b bytes.Buffer
		b.WriteByte('[')
		if c.Intn("megakind", 2) == 0 {
			// few, long, distinct strings: a string table of 1.2-3 MiB behind a short value stream
			n := 12 + c.Intn("megastrs", 20)
			for i := 0; i < n; i++ {
				if i > 0 {
					b.WriteByte(',')
				}
				b.WriteByte('"')
				seed := c.U64("megaseed")
				l := 70000 + c.Intn("megalen", 50000)
				for k := 0; k < l; k++ {
					seed = seed*6364136223846793005 + 1442695040888963407
					b.WriteByte("abcdefghijklmnopqrstuvwxyzABCDEFGHIJKLMNOPQRSTUVWXYZ0123456789-_"[seed>>58])
				}
				b.WriteByte('"')
			}
		} else {
			// a value stream beyond 1 MiB: more than 131072 numbers
			n := 140000 + c.Intn("megaints", 120000)
			seed := c.U64("megaseed")
			for i := 0; i < n; i++ {
				if i > 0 {
					b.WriteByte(',')
				}
				seed = seed*6364136223846793005 + 1442695040888963407
				b.WriteString(strconv.FormatInt(int64(seed>>20)-(1<<42), 10))
			}
		}
		b.WriteByte(']')
		doc = b.Bytes()
		r.stat("mega_sections", 1)
	} else if huge {
		cfg.ND = false
		if c.Intn("hugeatoms", 4) == 0 {
			// more than 65536 tags over a value section well below 64 KiB
			doc = GenBulkDoc(c, 340000+c.Intn("atomsz", 300000), []int{FamAtoms}).B
		} else {
			doc = GenBulkDoc(c, 150000+c.Intn("hugesz", 350000), []int{FamDenseArrays, FamZeros, FamNumbers, FamStrings, FamMixed, FamWide, FamBigMembers, FamBigMembers}).B
		}
		r.stat("huge_tapes", 1)
	} else {
		doc = genHistDoc(r, cfg.ND, big)
	}
	o := parseNew(r, doc, cfg, what)
	if o == nil {
		return nil
	}
	ne := c.Pick("nedits", 3, 2, 2, 1)
	for k := 0; k < ne && !r.failed(); k++ {
		if c.Intn("editk", 2) == 0 {
			opSet(r, o, what+" edit")
		} else {
			opDelete(r, o, what+" edit")
		}
	}
	return o
}

// RunHistSerial is the engine of C11. The history runs inside one bubble in which the serializer's codec goroutines
// (and the pipeline stages of large parses) proceed only when the seeded scheduler says so, so that what a call leaves
// running behind it meets the following calls in a controlled, repeatable order.
func RunHistSerial(r *Run) {
	c := r.C
	polKind := c.Intn("policy", polCount)
	pol := newPipePolicy(c, polKind, 64)
	schedParkCodecs = true
	defer func() { schedParkCodecs = false }()
	schedExec(r, 2_000_000, pol, polNames[polKind], func(newCall func()) { runHistSerialBody(r) })
}

func runHistSerialBody(r *Run) {
	c := r.C
	nser := 1 + c.Intn("nser", 3)
	sers := make([]*serState, nser)
	for i := range sers {
		sers[i] = &serState{s: simdjson.NewSerializer(), mode: int(simdjson.CompressDefault)}
	}
	if c.Intn("collision", 10) == 0 {
		bucketCollisionScenario(r, sers[0])
		if r.failed() {
			return
		}
	}
	var objs []*simObj
	nobj := 1 + c.Intn("nobj", 3)
	for i := 0; i < nobj && !r.failed(); i++ {
		big := c.Intn("serbig", 6) == 5
		hugeOdds := 60
		if r.thorough() {
			hugeOdds = 25
		}
		huge := c.Intn("serhuge", hugeOdds) == 0
		if o := makeEditedObjSized(r, fmt.Sprintf("obj%d", i), big, huge); o != nil {
			objs = append(objs, o)
		}
	}
	if len(objs) == 0 || r.failed() {
		r.Res.Evals++
		return
	}
	var blobs []*simBlob
	shared := 0
	nops := 2 + c.Intn("nops", 10)
	var trace []string
	for k := 0; k < nops && !r.failed(); k++ {
		what := fmt.Sprintf("op #%d", k)
		kind := c.Pick("sop", 2, 5, 5, 2, 2)
		if len(blobs) == 0 && (kind == 2 || kind == 4) {
			kind = 1
		}
		switch kind {
		case 4: // a damaged blob deserialized into a reused destination: a failed call is part of the history
			st := sers[c.Intn("ser", nser)]
			bl := blobs[c.Intn("blob", len(blobs))]
			dstObj := objs[c.Intn("dstobj", len(objs))]
			bad := append([]byte(nil), bl.b...)
			f, ferr := parseFraming(bad)
			switch bk := c.Intn("badkind", 5); {
			case ferr == nil && bk <= 1 && f.sec[3].typeOff >= 0 && f.sec[2].typeOff >= 0:
				bad[f.sec[2+c.Intn("badsec", 2)].typeOff] = 9 // unknown block type
			case ferr == nil && bk <= 3:
				// a byte inside a block's payload: a compressed block then fails half way through its decoder
				sec := 1 + c.Intn("badpaysec", 3)
				if f.sec[sec].typeOff >= 0 && f.sec[sec].payLen > 0 {
					bad[f.sec[sec].payOff+c.Intn("badpaypos", f.sec[sec].payLen)] ^= byte(1 + c.Intn("badpaybit", 255))
				} else {
					bad[len(bad)-1] ^= 0x55
				}
			default:
				bad[len(bad)-1] ^= 0x55
			}
			var derr error
			if err := safely(func() error { _, derr = st.s.Deserialize(bad, dstObj.pj); return nil }); err != nil {
				walkerFail(r, "deserialize", what+" (damaged blob)", err)
				break
			}
			dstObj.invalid = true
			st.uses++
			shared++
			if derr != nil {
				r.stat("fault_failed_deserialize_into_reused_dst", 1)
			}
			trace = append(trace, fmt.Sprintf("des(damaged blob of mode %d) into a reused dst -> err=%v", bl.mode, derr != nil))
		case 0: // mode switch
			st := sers[c.Intn("ser", nser)]
			st.mode = c.Intn("cmode", 4)
			st.s.CompressMode(simdjson.CompressMode(st.mode))
			trace = append(trace, fmt.Sprintf("mode(s%p,%d)", st, st.mode))
		case 1: // serialize
			st := sers[c.Intn("ser", nser)]
			o := objs[c.Intn("obj", len(objs))]
			if !o.readable() {
				continue
			}
			var blob []byte
			var dst []byte
			if c.Intn("serdst", 3) == 0 {
				dst = make([]byte, 0, 1+c.Intn("serdstcap", 4096))
			}
			err := safely(func() error { blob = st.s.Serialize(dst, *o.pj); return nil })
			if err != nil {
				walkerFail(r, "serialize", what, err)
				break
			}
			if st.uses > 0 {
				shared++
			}
			st.uses++
			blobs = append(blobs, &simBlob{b: append([]byte(nil), blob...), model: cloneRoots(o.model), nd: o.nd, mode: st.mode})
			trace = append(trace, fmt.Sprintf("ser(mode %d, %d tape words -> %d bytes)", st.mode, len(o.pj.Tape), len(blob)))
			r.Res.Evals++
		case 2: // deserialize
			st := sers[c.Intn("ser", nser)]
			bl := blobs[c.Intn("blob", len(blobs))]
			var dst *simdjson.ParsedJson
			var dstObj *simObj
			if c.Intn("desdst", 2) == 1 {
				dstObj = objs[c.Intn("dstobj", len(objs))]
				if dstObj.pj != nil {
					dst = dstObj.pj
				}
			}
			var out *simdjson.ParsedJson
			var derr error
			in := append([]byte(nil), bl.b...)
			keep := c.Intn("deskeep", 2) == 0
			if keep {
				// the caller keeps its blob (a file mapping, a cache entry) and reads it again later
				in = bl.b
				bl.lent = true
			}
			err := safely(func() error { out, derr = st.s.Deserialize(in, dst); return nil })
			if err != nil {
				walkerFail(r, "deserialize", what, err)
				break
			}
			if derr != nil {
				r.violate("deserialize", "error:"+msgClass(derr.Error()), fmt.Sprintf("%s: Deserialize of a blob written in mode %d (reader mode %d, dst reused %v) failed: %v", what, bl.mode, st.mode, dst != nil, derr))
				break
			}
			if st.uses > 0 || dst != nil {
				shared++
			}
			st.uses++
			// scribble over the input: the result must not alias the blob
			for i := range in {
				if keep {
					break
				}
				in[i] = 0xAA
			}
			no := &simObj{pj: out, model: cloneRoots(bl.model), nd: bl.nd, copy: true, origin: what + " deserialize"}
			if dstObj != nil && dst != nil {
				*dstObj = *no
			} else {
				objs = append(objs, no)
			}
			which := bInto | bAdv
			readBack(r, no, which, fmt.Sprintf("%s: deserialized (writer mode %d, reader mode %d, dst reused %v)", what, bl.mode, st.mode, dst != nil), nil)
			if !r.failed() {
				if err := CheckTape(out, true); err != nil {
					r.violate("tape", "deserialized", fmt.Sprintf("%s: deserialized tape: %v", what, err))
				}
			}
			trace = append(trace, fmt.Sprintf("des(writer mode %d, reader mode %d, dst=%v)", bl.mode, st.mode, dst != nil))
			r.Res.Evals++
		case 3: // edit some object (also deserialized ones: multi-generation tapes)
			o := objs[c.Intn("obj", len(objs))]
			if !o.readable() {
				continue
			}
			if c.Intn("editk", 2) == 0 {
				opSet(r, o, what+" edit")
			} else {
				opDelete(r, o, what+" edit")
			}
			trace = append(trace, "edit")
		}
	}
	// settle: whatever earlier calls left running has finished when this (fake-clock) sleep returns
	if !r.failed() {
		time.Sleep(time.Millisecond)
		for _, o := range objs {
			if o.readable() && !r.failed() {
				readBack(r, o, bInto, fmt.Sprintf("after the history settled, object from %s; history: %v", o.origin, trace), nil)
			}
		}
	}
	// blobs the history handed to Deserialize as they were are the caller's: they still hold their documents
	for i, bl := range blobs {
		if !bl.lent || r.failed() {
			continue
		}
		var out *simdjson.ParsedJson
		var derr error
		if err := safely(func() error { out, derr = simdjson.NewSerializer().Deserialize(bl.b, nil); return nil }); err != nil {
			walkerFail(r, "deserialize", fmt.Sprintf("blob #%d read again after the history", i), err)
			break
		}
		if derr != nil {
			r.violate("deserialize", "error-later:"+msgClass(derr.Error()), fmt.Sprintf("blob #%d (mode %d) no longer deserializes after the history %v: %v", i, bl.mode, trace, derr))
			break
		}
		readBack(r, &simObj{pj: out, model: bl.model, nd: bl.nd, copy: true, origin: "blob read again"}, bInto, fmt.Sprintf("blob #%d (mode %d) read again with a fresh Serializer after the history %v", i, bl.mode, trace), nil)
		r.stat("blobs_read_again_after_history", 1)
	}
	r.Res.Sample["ops"] = trace
	r.Res.NonTrivial = shared >= 1
	r.stat("shared_roundtrips", shared)
	for _, b := range blobs {
		r.fp.u64(digestRoots(b.model))
		r.fp.u64(uint64(b.mode))
	}
	// cross-build exchange: leave some blobs (with their models) for the noasm build
	if *flagXDir != "" && !r.failed() && len(blobs) > 0 {
		exportBlob(*flagXDir, blobs[c.Intn("xblob", len(blobs))])
	}
}

// bucketCollisionScenario: two documents serialized one after the other on the same Serializer such that a short
// string X and a longer string Y = X+suffix fall into the same dedup bucket, X sits where Y sat in the previous
// call's string buffer, and both occur in the second document. The second blob must still round-trip.
func bucketCollisionScenario(r *Run, st *serState) {
	c := r.C
	x := []byte([]string{"key_", "id", "a", "name:", "0"}[c.Intn("colx", 5)])
	var y []byte
	if c.Intn("colchosen", 3) != 0 {
		y = findBucketMate(c, x, string(x))
	}
	if y == nil {
		// no chosen collision: a plain prefix pair still exercises stale table entries / stale buffer content
		y = append(append([]byte(nil), x...), "_str"...)
	}
	q := func(b []byte) string { return "\"" + string(b) + "\"" }
	var docA, docB string
	switch c.Intn("colshape", 4) {
	case 0:
		docA = "[" + q(y) + ",1]"
		docB = "[" + q(x) + "," + q(y) + ",2.5]"
	case 1:
		docA = "{" + q(y) + ":true}"
		docB = "{" + q(x) + ":" + q(y) + "," + q(y) + ":null}"
	case 2:
		docA = "[\"p\"," + q(y) + "]"
		docB = "[\"p\"," + q(x) + ",[" + q(y) + "]]"
	case 3:
		docA = "[" + q(y) + "," + q(y) + "]"
		docB = "[" + q(x) + ",{\"k\":" + q(y) + "}]"
	}
	st.mode = c.Intn("cmode", 4)
	st.s.CompressMode(simdjson.CompressMode(st.mode))
	cfg := parseCfg{Copy: c.Intn("copy", 2) == 0, AVX512: hostAVX512}
	oa := parseNew(r, []byte(docA), cfg, "collision scenario doc A")
	ob := parseNew(r, []byte(docB), cfg, "collision scenario doc B")
	if oa == nil || ob == nil || r.failed() {
		return
	}
	var blobB []byte
	if err := safely(func() error { st.s.Serialize(nil, *oa.pj); blobB = st.s.Serialize(nil, *ob.pj); return nil }); err != nil {
		walkerFail(r, "serialize", "bucket-collision scenario", err)
		return
	}
	st.uses += 2
	des := simdjson.NewSerializer()
	var out *simdjson.ParsedJson
	var derr error
	if err := safely(func() error { out, derr = des.Deserialize(blobB, nil); return nil }); err != nil {
		walkerFail(r, "deserialize", "bucket-collision scenario", err)
		return
	}
	r.stat("bucket_collision_scenarios", 1)
	r.Res.Evals++
	what := fmt.Sprintf("bucket-collision scenario (mode %d): %s then %s on one Serializer", st.mode, docA, docB)
	if derr != nil {
		r.violate("deserialize", "error:"+msgClass(derr.Error()), what+": "+derr.Error())
		return
	}
	if err := CheckTape(out, true); err != nil {
		r.violate("tape", "deserialized", what+": "+err.Error())
		return
	}
	readBack(r, &simObj{pj: out, model: ob.model, copy: true}, bInto|bAdv, what, nil)
}

type xBlob struct {
	Blob  []byte
	Model []*MV
	Mode  int
}

var xCount int

func exportBlob(dir string, b *simBlob) {
	if xCount >= 40 {
		return
	}
	xCount++
	var buf bytes.Buffer
	if err := gob.NewEncoder(&buf).Encode(xBlob{Blob: b.b, Model: b.model, Mode: b.mode}); err != nil {
		return
	}
	name := filepath.Join(dir, fmt.Sprintf("x-%d-%x.gob", os.Getpid(), hashBytes(b.b)))
	os.WriteFile(name, buf.Bytes(), 0o644)
}

// RunCrossBuild is executed by the noasm build: it deserializes the blobs written by the asm build
// and compares what they expose with the recorded models.
func RunCrossBuild(r *Run) {
	r.Prop = "C11"
	files, _ := filepath.Glob(filepath.Join(*flagXDir, "x-*.gob"))
	if len(files) == 0 {
		r.Res.Harness = "cross-build: no blobs found in " + *flagXDir
		return
	}
	s := simdjson.NewSerializer()
	for i, f := range files {
		raw, err := os.ReadFile(f)
		if err != nil {
			continue
		}
		var xb xBlob
		if err := gob.NewDecoder(bytes.NewReader(raw)).Decode(&xb); err != nil {
			r.Res.Harness = "cross-build: cannot decode " + f + ": " + err.Error()
			return
		}
		s.CompressMode(simdjson.CompressMode(i % 4))
		var out *simdjson.ParsedJson
		var derr error
		if err := safely(func() error { out, derr = s.Deserialize(xb.Blob, nil); return nil }); err != nil {
			walkerFail(r, "xbuild", "noasm Deserialize", err)
			return
		}
		if derr != nil {
			r.violate("xbuild", "error:"+msgClass(derr.Error()), fmt.Sprintf("noasm build cannot deserialize a blob written by the asm build in mode %d: %v", xb.Mode, derr))
			r.Res.Inputs["xblob_gob"] = base64.StdEncoding.EncodeToString(raw)
			return
		}
		o := &simObj{pj: out, model: xb.Model, copy: true}
		readBack(r, o, bInto|bAdv|bIface, fmt.Sprintf("noasm build reading a blob written in mode %d", xb.Mode), nil)
		if r.failed() {
			r.Res.Inputs["xblob_gob"] = base64.StdEncoding.EncodeToString(raw)
			return
		}
		r.Res.Evals++
		r.fp.u64(hashBytes(xb.Blob))
	}
	r.Res.NonTrivial = true
	r.Res.Sample["blobs"] = len(files)
}

// ---- profile reuse (C15) ----------------------------------------------------------------------

// genReuseDoc draws valid / stage-1-failing / stage-2-failing documents on both sides of 8 KiB.
func genReuseDoc(r *Run, nd bool) (doc []byte, desc string) {
	c := r.C
	large := c.Intn("large", 3) == 2
	var d Doc
	if !large && !nd && c.Intn("midsize", 5) == 0 {
		// below the concurrent-path threshold but spanning several index buffers (dense structurals)
		d = GenBulkDoc(c, 1500+c.Intn("midsz", 6500), []int{FamDenseArrays, FamDenseObjects, FamZeros, FamNumbers, FamStrings})
		desc = fmt.Sprintf("mid-dense(%d)", len(d.B))
	} else if large {
		target := 8200 + c.Intn("lsz", 60000)
		if nd {
			var buf bytes.Buffer
			lines := 1 + c.Intn("ndlines", 3)
			for i := 0; i < lines; i++ {
				ld := GenBulkDoc(c, target/lines, pipeFams)
				if i == 0 {
					d.Sites = ld.Sites
				}
				buf.Write(bytes.ReplaceAll(ld.B, []byte{'\n'}, []byte{' '}))
				buf.WriteString("\n")
			}
			d.B = buf.Bytes()
		} else {
			d = GenBulkDoc(c, target, pipeFams)
		}
		desc = fmt.Sprintf("large(%d)", len(d.B))
	} else {
		target := 4 + c.Intn("ssz", 400)
		if nd {
			var buf bytes.Buffer
			lines := 1 + c.Intn("ndlines", 3)
			for i := 0; i < lines; i++ {
				ld := GenDoc(c, DocSpec{Family: FamMixed, Target: target / lines, WS: 0, Record: i == 0, MaxDepth: 4, StrMax: 30, OneLine: true})
				if i == 0 {
					d.Sites = ld.Sites
				}
				buf.Write(ld.B)
				buf.WriteString("\n")
			}
			d.B = buf.Bytes()
		} else {
			d = GenDoc(c, DocSpec{Family: []int{FamMixed, FamKeyed, FamStrings}[c.Intn("rfam", 3)], Target: target, WS: c.Pick("rws", 4, 2, 1), Record: true, MaxDepth: 5, StrMax: 60})
		}
		desc = fmt.Sprintf("small(%d)", len(d.B))
	}
	doc = d.B
	switch c.Pick("rdef", 5, 2, 2) {
	case 1: // stage-1 failures
		kind := []int{DefCtrlInString, DefUnterminatedString, DefTrailingGarbage, DefTruncate}[c.Intn("s1def", 4)]
		pos := c.Intn("defpos", 4)
		doc = ApplyDefect(c, d, kind, pos)
		desc += " defect=" + defNames[kind]
	case 2: // stage-2 failures
		kind := []int{DefMissingComma, DefExtraComma, DefMissingColon, DefBadAtom, DefLeadingZero, DefLoneMinus, DefUnbalanced}[c.Intn("s2def", 7)]
		if len(d.Sites) == 0 {
			kind = DefBadByte // families without recorded token sites: a wrong byte at a drawn place
		}
		pos := c.Intn("defpos", 4)
		doc = ApplyDefect(c, d, kind, pos)
		desc += " defect=" + defNames[kind]
	}
	return
}

// RunHistReuse is the engine of C15: the whole history runs inside one bubble under a pipeline schedule,
// because whether a failed parse leaves residue in the ring/channel depends on the schedule.
func RunHistReuse(r *Run) {
	c := r.C
	nops := 2 + c.Intn("nops", 9)
	polKind := c.Intn("policy", polCount)
	pol := newPipePolicy(c, polKind, 64)
	r.stat("policy_"+polNames[polKind], 1)
	var trace []string
	reused := 0
	total := 0
	failedDes := 0
	body := func(newCall func()) {
		var pool []*simObj // reusable objects (readable or not)
		var blobs []*simBlob
		handles := map[*simObj]*simdjson.ParsedJson{}
		defer func() {
			// blobs handed to Deserialize are the caller's: read with a fresh Serializer they still hold their documents
			for i, bl := range blobs {
				if !bl.lent || r.failed() {
					continue
				}
				var out *simdjson.ParsedJson
				var derr error
				if err := safely(func() error { out, derr = simdjson.NewSerializer().Deserialize(bl.b, nil); return nil }); err != nil {
					walkerFail(r, "deserialize", fmt.Sprintf("blob #%d read again after the history", i), err)
					return
				}
				if derr != nil {
					r.violate("deserialize", "error-later:"+msgClass(derr.Error()), fmt.Sprintf("blob #%d (mode %d) no longer deserializes after the history %v: %v", i, bl.mode, trace, derr))
					return
				}
				readBack(r, &simObj{pj: out, model: bl.model, nd: bl.nd, copy: true, origin: "blob read again"}, bInto, fmt.Sprintf("blob #%d (mode %d) read again with a fresh Serializer after the history %v", i, bl.mode, trace), nil)
				r.stat("blobs_read_again_after_history", 1)
			}
		}()
		defer func() {
			// settle: let anything a (failed) call may have left running finish (fake clock: the sleep returns once
			// every other goroutine of the bubble is idle), then every live object must still expose its document
			if r.failed() {
				return
			}
			time.Sleep(time.Millisecond)
			for _, o := range pool {
				if o.readable() && !r.failed() {
					readBack(r, o, bInto, fmt.Sprintf("after the history settled, object from %s; history: %v", o.origin, trace), nil)
				}
			}
		}()
		sers := []*serState{{s: simdjson.NewSerializer(), mode: 2}, {s: simdjson.NewSerializer(), mode: 2}}
		for k := 0; k < nops && !r.failed(); k++ {
			what := fmt.Sprintf("call #%d", k)
			kind := c.Pick("rop", 8, 2, 3, 1, 1, 2)
			if (kind == 2 || kind == 5) && len(blobs) == 0 {
				kind = 1
			}
			switch kind {
			case 0: // parse with or without reuse
				cfg := drawCfg(c, true)
				doc, desc := genReuseDoc(r, cfg.ND)
				total += len(doc)
				var ru *simObj
				if len(pool) > 0 && c.Intn("reuse", 4) != 0 {
					ru = pool[c.Intn("ruobj", len(pool))]
				}
				ref := refFor(doc, cfg.ND)
				buf := &simBuf{b: append([]byte(nil), doc...)}
				var pj *simdjson.ParsedJson
				var perr error
				var ruPJ *simdjson.ParsedJson
				viaCopy := false
				if ru != nil {
					ruPJ = ru.pj
					if h := handles[ru]; h != nil {
						// the caller keeps its own ParsedJson value (a by-value copy made earlier) and reuses that
						ruPJ = h
						viaCopy = true
					} else if ru.pj != nil && c.Intn("byvalue", 3) == 0 {
						cp := *ru.pj
						handles[ru] = &cp
						ruPJ = &cp
						viaCopy = true
					}
					ru.invalid = true // whatever happens, the old content is gone
					reused++
				}
				err := safely(func() error { pj, perr = doParse(buf.b, ruPJ, cfg); return nil })
				newCall()
				trace = append(trace, fmt.Sprintf("parse %s %s reuse=%v(by-value handle %v) -> ok=%v", cfg, desc, ru != nil, viaCopy, perr == nil))
				r.Res.Evals++
				if err != nil {
					walkerFail(r, "panic", what, err)
					return
				}
				if ref.Ambiguous {
					continue
				}
				if (perr == nil) != ref.OK {
					r.Res.Inputs["doc"] = b64(buf.b) // the document of the failing call, for the replay file
					r.violate("outcome", "reuse-verdict", fmt.Sprintf("%s: %s %s with reuse=%v: ok=%v (%v) but a fresh parse would give ok=%v (%s); history: %v", what, cfg, desc, ru != nil, perr == nil, perr, ref.OK, ref.Err, trace))
					return
				}
				if perr != nil {
					continue
				}
				no := &simObj{pj: pj, model: ref.Roots, nd: cfg.ND, copy: cfg.Copy, buf: buf, origin: what}
				if ru != nil {
					// the reused object is consumed by a successful parse
					delete(handles, ru)
					for i, p := range pool {
						if p == ru {
							pool = append(pool[:i], pool[i+1:]...)
							break
						}
					}
				}
				pool = append(pool, no)
				if cfg.Copy && c.Intn("scribble", 3) == 0 {
					// default mode: the caller may recycle its buffer as soon as the call has returned
					trace = append(trace, "input buffer overwritten ("+scribble(c, buf.b)+")")
					buf.scribbled = true
				}
				readBack(r, no, bInto|bAdv, fmt.Sprintf("%s: %s %s with reuse=%v; history: %v", what, cfg, desc, ru != nil, trace), nil)
				if !r.failed() && len(doc) < 1<<16 {
					readBack(r, no, bIface|bMarshal, fmt.Sprintf("%s: %s %s with reuse=%v", what, cfg, desc, ru != nil), nil)
				}
			case 1: // serialize a live object
				var live []*simObj
				for _, o := range pool {
					if o.readable() {
						live = append(live, o)
					}
				}
				if len(live) == 0 {
					continue
				}
				o := live[c.Intn("serobj", len(live))]
				st := sers[c.Intn("ser", 2)]
				if c.Intn("modesw", 2) == 1 {
					st.mode = c.Intn("cmode", 4)
					st.s.CompressMode(simdjson.CompressMode(st.mode))
				}
				var blob []byte
				if err := safely(func() error { blob = st.s.Serialize(nil, *o.pj); return nil }); err != nil {
					walkerFail(r, "serialize", what, err)
					return
				}
				if st.uses > 0 {
					reused++
				}
				st.uses++
				blobs = append(blobs, &simBlob{b: append([]byte(nil), blob...), model: cloneRoots(o.model), nd: o.nd, mode: st.mode})
				trace = append(trace, fmt.Sprintf("serialize mode %d", st.mode))
				r.Res.Evals++
			case 2: // deserialize into a reused destination
				bl := blobs[c.Intn("blob", len(blobs))]
				st := sers[c.Intn("ser", 2)]
				var dstObj *simObj
				var dst *simdjson.ParsedJson
				if len(pool) > 0 && c.Intn("desreuse", 4) != 0 {
					dstObj = pool[c.Intn("dstobj", len(pool))]
					dst = dstObj.pj
					dstObj.invalid = true
					reused++
				}
				var out *simdjson.ParsedJson
				var derr error
				bl.lent = true
				if err := safely(func() error { out, derr = st.s.Deserialize(bl.b, dst); return nil }); err != nil {
					walkerFail(r, "deserialize", what, err)
					return
				}
				if st.uses > 0 {
					reused++
				}
				st.uses++
				trace = append(trace, fmt.Sprintf("deserialize (writer mode %d, reader mode %d) dst reused=%v", bl.mode, st.mode, dst != nil))
				r.Res.Evals++
				if derr != nil {
					r.violate("deserialize", "reuse-error:"+msgClass(derr.Error()), fmt.Sprintf("%s: Deserialize failed with a reused destination/serializer: %v; history: %v", what, derr, trace))
					return
				}
				no := &simObj{pj: out, model: cloneRoots(bl.model), nd: bl.nd, copy: true, origin: what}
				if dstObj != nil {
					for i, p := range pool {
						if p == dstObj {
							pool = append(pool[:i], pool[i+1:]...)
							break
						}
					}
				}
				pool = append(pool, no)
				readBack(r, no, bInto|bAdv, fmt.Sprintf("%s: deserialized with reuse; history: %v", what, trace), nil)
			case 5: // a Deserialize that fails (damaged blob) into a reused destination: part of the object's past
				bl := blobs[c.Intn("blob", len(blobs))]
				st := sers[c.Intn("ser", 2)]
				if len(pool) == 0 {
					continue
				}
				dstObj := pool[c.Intn("dstobj", len(pool))]
				bad := append([]byte(nil), bl.b...)
				how := "truncated"
				if f, err := parseFraming(bad); err == nil && c.Intn("badkind", 3) != 0 {
					sec := 2 + c.Intn("badsec", 2)
					if f.sec[sec].typeOff >= 0 {
						bad[f.sec[sec].typeOff] = 7
						how = "unknown block type in " + secNames[sec]
					} else {
						bad = bad[:len(bad)-1-c.Intn("trunc", min(len(bad)-1, 16))]
					}
				} else {
					bad = bad[:len(bad)-1-c.Intn("trunc", min(len(bad)-1, 16))]
				}
				if c.Intn("zeroblock", 4) == 0 {
					// a block declared non-empty but stored with size 0 (framing otherwise intact)
					if f, err := parseFraming(bl.b); err == nil {
						sec := 1 + c.Intn("zsec", 3)
						if f.sec[sec].typeOff >= 0 {
							bad = splice(bl.b, f.sec[sec].blkSizeOff, f.sec[sec].blkSizeLen+int(f.sec[sec].blkSize), putUvarint(0))
							if cs, n := binary.Uvarint(bad[1:]); n > 0 {
								bad = splice(bad, 1, n, putUvarint(cs-uint64(len(bl.b)-len(bad))))
							}
							how = "size-0 " + secNames[sec] + " block with a non-zero declared length"
						}
					}
				}
				var derr error
				var dout *simdjson.ParsedJson
				if err := safely(func() error { dout, derr = st.s.Deserialize(bad, dstObj.pj); return nil }); err != nil {
					walkerFail(r, "deserialize", what+" (damaged blob)", err)
					return
				}
				// the same call on fresh objects must give the same outcome: an error both times, or the same document
				var fout *simdjson.ParsedJson
				var ferr error
				if err := safely(func() error { fout, ferr = simdjson.NewSerializer().Deserialize(bad, nil); return nil }); err != nil {
					walkerFail(r, "deserialize", what+" (damaged blob, fresh objects)", err)
					return
				}
				if (derr == nil) != (ferr == nil) {
					r.violate("outcome", "reuse-damaged-blob-verdict", fmt.Sprintf("%s: Deserialize of a damaged blob (%s) with reused destination/serializer: err=%v, with fresh objects: err=%v; history: %v", what, how, derr, ferr, trace))
					return
				}
				if derr == nil && ferr == nil {
					a, ea := WalkInto(dout)
					b, eb := WalkInto(fout)
					if (ea == nil) != (eb == nil) || (ea == nil && DiffRoots(b, a, EqExact) != "") {
						r.violate("outcome", "reuse-damaged-blob-document", fmt.Sprintf("%s: Deserialize of a damaged blob (%s) exposes a different document with reused objects than with fresh ones (%v / %v): %s; history: %v", what, how, ea, eb, DiffRoots(b, a, EqExact), trace))
						return
					}
				}
				if derr != nil {
					dstObj.invalid = true
					failedDes++
				} else {
					dstObj.invalid = true // accepted damaged data: content unspecified, still reusable
				}
				st.uses++
				reused++
				trace = append(trace, fmt.Sprintf("deserialize of a damaged blob (%s, writer mode %d) into a reused dst -> err=%v", how, bl.mode, derr != nil))
				r.Res.Evals++
				if derr != nil && c.Intn("retryafterfail", 2) == 0 {
					// the caller tries again at once: an intact blob, the same Serializer, the same destination - whatever the
					// failed call started must not reach into this one (a decompressor that was not joined writes late)
					bl2 := blobs[c.Intn("retryblob", len(blobs))]
					bl2.lent = true
					var out2 *simdjson.ParsedJson
					var derr2 error
					if err := safely(func() error { out2, derr2 = st.s.Deserialize(bl2.b, dstObj.pj); return nil }); err != nil {
						walkerFail(r, "deserialize", what+" (right after a failed call)", err)
						return
					}
					trace = append(trace, fmt.Sprintf("deserialize (writer mode %d) into the same dst right after the failed call", bl2.mode))
					r.Res.Evals++
					r.stat("deserialize_right_after_failed_call", 1)
					if derr2 != nil {
						r.violate("deserialize", "reuse-error:"+msgClass(derr2.Error()), fmt.Sprintf("%s: Deserialize of an intact blob failed right after a failed call on the same destination: %v; history: %v", what, derr2, trace))
						return
					}
					no := &simObj{pj: out2, model: cloneRoots(bl2.model), nd: bl2.nd, copy: true, origin: what + " (after a failed call)"}
					for i, p := range pool {
						if p == dstObj {
							pool = append(pool[:i], pool[i+1:]...)
							break
						}
					}
					pool = append(pool, no)
					readBack(r, no, bInto|bAdv, fmt.Sprintf("%s: deserialized right after a failed call on the same destination; history: %v", what, trace), nil)
				}
			case 3: // in-place edit of a live object (its tape then carries NOPs and appended strings)
				var live []*simObj
				for _, o := range pool {
					if o.readable() && len(o.pj.Tape) < 4000 {
						live = append(live, o)
					}
				}
				if len(live) == 0 {
					continue
				}
				o := live[c.Intn("editobj", len(live))]
				if c.Intn("editk", 2) == 0 {
					opSet(r, o, what+" edit")
				} else {
					opDelete(r, o, what+" edit")
				}
				trace = append(trace, "edit")
			case 4: // clone into a reused destination
				var live []*simObj
				for _, o := range pool {
					if o.readable() {
						live = append(live, o)
					}
				}
				if len(live) == 0 || len(pool) < 2 {
					continue
				}
				src := live[c.Intn("clsrc", len(live))]
				dstObj := pool[c.Intn("cldst", len(pool))]
				if dstObj == src {
					continue
				}
				var out *simdjson.ParsedJson
				if err := safely(func() error { out = src.pj.Clone(dstObj.pj); return nil }); err != nil {
					walkerFail(r, "clone", what, err)
					return
				}
				if dstObj.pj != nil && out != dstObj.pj {
					r.violate("clone", "destination-ignored", fmt.Sprintf("%s: Clone(dst) returned another object than the destination it was given; history: %v", what, trace))
					return
				}
				reused++
				*dstObj = simObj{pj: out, model: cloneRoots(src.model), nd: src.nd, copy: true, origin: what + " clone"}
				trace = append(trace, "clone into reused dst")
				readBack(r, dstObj, bInto|bAdv, fmt.Sprintf("%s: clone into a reused destination; history: %v", what, trace), nil)
				if !r.failed() {
					// the clone's tape is the source's tape, entry for entry - nothing of the destination's past behind it
					// (Serialize walks the exported Tape to its end)
					if len(out.Tape) != len(src.pj.Tape) {
						r.violate("clone", "tape-length", fmt.Sprintf("%s: clone into a reused destination has %d tape entries, the source %d; history: %v", what, len(out.Tape), len(src.pj.Tape), trace))
					} else if len(out.Tape) < 200000 {
						readBack(r, dstObj, bSerial, fmt.Sprintf("%s: clone into a reused destination, serialized; history: %v", what, trace), []*simdjson.Serializer{simdjson.NewSerializer()})
					}
				}
				if !r.failed() {
					readBack(r, src, bInto, fmt.Sprintf("%s: source after cloning into a reused destination", what), nil)
				}
			}
		}
	}
	schedParkCodecs = true
	stuck := schedExec(r, 6*(nops*70000/64+8)+256+nops*64, pol, polNames[polKind], body)
	schedParkCodecs = false
	_ = stuck
	_ = total
	r.Res.Sample["history"] = trace
	r.Res.NonTrivial = reused > 0
	r.stat("reuses", reused)
	r.stat("fault_failed_deserialize_into_reused_dst", failedDes)
	for _, t := range trace {
		r.fp.str(t)
	}
}

// ---- profile alias (C16) ---------------------------------------------------------------------

func scribble(c *Chooser, b []byte) string {
	style := c.Intn("scrib", 5)
	switch style {
	case 0:
		for i := range b {
			b[i] = 0
		}
		return "zero"
	case 1:
		for i := range b {
			b[i] = byte(c.Intn("scribbyte", 256))
			if i > 64 {
				b[i] = b[i%64] ^ byte(i)
			}
		}
		return "random"
	case 2:
		if len(b) > 1 {
			copy(b, b[1:])
		}
		return "shift"
	case 3:
		for i := range b {
			b[i] = '"'
		}
		return "quotes"
	default:
		for i := range b {
			b[i] = "{\"zz\":[1,2,3]}"[i%14]
		}
		return "other-document"
	}
}

// RunHistAlias is the engine of C16's first two clauses and the Clone clause.
func RunHistAlias(r *Run) {
	c := r.C
	cfg := drawCfg(c, true)
	cfg.Copy = c.Intn("aliascopy", 3) != 0
	doc := genHistDoc(r, cfg.ND, c.Intn("bigdoc", 8) == 7)
	if c.Intn("hugestring", 15) == 0 {
		// one very long string (beyond any internal block size) between small values
		cfg.ND = false
		doc = GenDoc(c, DocSpec{Family: FamHugeString, Target: 60000 + c.Intn("hugestrsz", 200000), WS: 0}).B
		if c.Intn("hugestrplain", 2) == 0 {
			// escape-free variant
			doc = append(append([]byte(`["x","`), bytes.Repeat([]byte("abcdefgh"), 8200+c.Intn("hugestrrep", 20000))...), `",1]`...)
		}
	}
	r.Res.Inputs["doc"] = b64(doc)
	r.Res.Sample["cfg"] = cfg.String()
	var trace []string
	// optionally the object handed to Parse as reuse has a past with other option settings
	var past *simdjson.ParsedJson
	if c.Intn("withpast", 3) == 0 {
		pcfg := drawCfg(c, true)
		pcfg.Copy = c.Intn("pastcopy", 2) == 0
		if po := parseNew(r, genHistDoc(r, pcfg.ND, false), pcfg, "earlier parse"); po != nil {
			past = po.pj
			trace = append(trace, "reuse object previously used for "+pcfg.String())
		}
		if r.failed() {
			return
		}
	}
	o := parseNewReuse(r, doc, cfg, "parse", past)
	r.Res.Evals++
	if o == nil || r.failed() {
		return
	}
	sers := newSerializers(c, 1)
	objs := []*simObj{o}
	interesting := false
	// with copying disabled and the buffer intact the exposed document must be identical (= the model)
	readBack(r, o, bInto|bAdv|bIface, "right after parse ("+cfg.String()+")", nil)
	nops := 1 + c.Intn("nops", 8)
	for k := 0; k < nops && !r.failed(); k++ {
		what := fmt.Sprintf("op #%d", k)
		switch c.Pick("aop", 3, 3, 3, 2, 2, 2) {
		case 5: // Deserialize another document into one of the objects, in place
			var live []*simObj
			for _, x := range objs {
				if x.pj != nil {
					live = append(live, x)
				}
			}
			if len(live) == 0 {
				continue
			}
			x := live[c.Intn("deserobj", len(live))]
			snd := c.Intn("desernd", 2) == 1
			src := parseNew(r, genHistDoc(r, snd, c.Intn("deserbig", 6) == 5), parseCfg{Copy: true, ND: snd}, what+" source of the blob")
			if r.failed() {
				break
			}
			if src == nil {
				continue
			}
			var blob []byte
			var out *simdjson.ParsedJson
			var derr error
			if err := safely(func() error {
				blob = sers[0].Serialize(nil, *src.pj)
				out, derr = sers[0].Deserialize(blob, x.pj)
				return nil
			}); err != nil {
				walkerFail(r, "deserialize", what, err)
				break
			}
			if derr != nil {
				r.violate("deserialize", "error", fmt.Sprintf("%s: Deserialize into '%s' failed: %v", what, x.origin, derr))
				break
			}
			// the refilled object keeps whatever memory it had (possibly the caller's input buffer): it is treated
			// like a no-copy result of that buffer; clones taken from it must be independent of everything
			x.pj, x.model, x.nd, x.copy, x.invalid, x.edited, x.kept = out, cloneRoots(src.model), src.nd, false, false, false, nil
			x.origin += " (refilled by Deserialize)"
			trace = append(trace, "deserialize into '"+x.origin+"'")
			interesting = true
		case 4: // hand one of the objects to Parse as reuse: everything else must stay what it was
			var live []*simObj
			for _, x := range objs {
				if x.pj != nil {
					live = append(live, x)
				}
			}
			if len(live) == 0 {
				continue
			}
			x := live[c.Intn("reparseobj", len(live))]
			ncfg := drawCfg(c, true)
			ncfg.Copy = c.Intn("reparsecopy", 2) == 0
			ndoc := genHistDoc(r, ncfg.ND, c.Intn("reparsebig", 6) == 5)
			no := parseNewReuse(r, ndoc, ncfg, what+" parse reusing "+x.origin, x.pj)
			if r.failed() {
				break
			}
			trace = append(trace, "parse reusing '"+x.origin+"'")
			interesting = true
			if no == nil {
				x.invalid = true
			} else {
				origin := x.origin
				*x = *no
				x.origin = origin + " (reused for another parse)"
			}
		case 0: // scribble over / recycle the input buffer
			how := scribble(c, o.buf.b)
			o.buf.scribbled = true
			interesting = true
			trace = append(trace, "scribble:"+how)
			if c.Intn("reparse", 3) == 0 {
				// reuse the buffer for another parse
				doc2 := genHistDoc(r, false, false)
				if len(doc2) <= len(o.buf.b) {
					copy(o.buf.b, doc2)
					for i := len(doc2); i < len(o.buf.b); i++ {
						o.buf.b[i] = ' '
					}
					safely(func() error { doParse(o.buf.b, nil, parseCfg{Copy: true}); return nil })
					trace = append(trace, "buffer reused for another parse")
				}
			}
		case 1: // clone
			var live []*simObj
			for _, x := range objs {
				if x.readable() {
					live = append(live, x)
				}
			}
			if len(live) == 0 {
				continue
			}
			src := live[c.Intn("clsrc", len(live))]
			var dst *simdjson.ParsedJson
			var dstObj *simObj
			if len(objs) > 1 && c.Intn("cldst", 3) == 0 {
				dstObj = objs[c.Intn("cldstobj", len(objs))]
				if dstObj == src || dstObj == o {
					dstObj = nil
				} else {
					dst = dstObj.pj
				}
			}
			var out *simdjson.ParsedJson
			if err := safely(func() error { out = src.pj.Clone(dst); return nil }); err != nil {
				walkerFail(r, "clone", what, err)
				break
			}
			if dst != nil && out != dst {
				// "If a nil destination is sent a new will be created": a destination that was given is the clone
				r.violate("clone", "destination-ignored", fmt.Sprintf("%s: Clone(dst) returned another object than the destination it was given (dst from '%s')", what, dstObj.origin))
				break
			}
			no := &simObj{pj: out, model: cloneRoots(src.model), nd: src.nd, copy: true, origin: what + " clone"}
			if dstObj != nil {
				*dstObj = *no
			} else {
				objs = append(objs, no)
			}
			trace = append(trace, fmt.Sprintf("clone(dst=%v)", dst != nil))
		case 2: // edit one of the objects
			var live []*simObj
			for _, x := range objs {
				if x.readable() {
					live = append(live, x)
				}
			}
			if len(live) == 0 {
				continue
			}
			x := live[c.Intn("editobj", len(live))]
			if c.Intn("editk", 2) == 0 {
				opSet(r, x, what+" edit of "+x.origin)
			} else {
				opDelete(r, x, what+" edit of "+x.origin)
			}
			if len(objs) > 1 {
				interesting = true
			}
			trace = append(trace, "edit "+x.origin)
		case 3:
			trace = append(trace, "readback")
		}
		// every live object must still equal its own model
		for _, x := range objs {
			if r.failed() {
				break
			}
			if !x.readable() {
				continue
			}
			readBack(r, x, bInto|bAdv|bMarshal|bSerial, fmt.Sprintf("after %s (%v): object '%s' (%s)", what, trace, x.origin, cfg), sers)
		}
	}
	r.Res.Sample["ops"] = trace
	r.Res.NonTrivial = interesting
	for _, t := range trace {
		r.fp.str(t)
	}
	r.fp.u64(hashBytes(doc))
}

// ---- C17: tape invariants as the only alarm-raising oracle across engines ----------------------

// RunTapeInv draws one of the engines and keeps only the tape-format oracle.
func RunTapeInv(r *Run) {
	r.onlyOracles = map[string]bool{"tape": true}
	switch r.C.Pick("tapeeng", 4, 3, 2, 2) {
	case 0:
		runTapeHist(r)
	case 1:
		RunPipe(r)
	case 2:
		RunStream(r)
	case 3:
		RunHistSerial(r)
	}
}

// runTapeHist: parse documents of every shape through the sync and async paths, check the tape; then
// edit, serialize in every mode, deserialize (fresh and reused destination) and check the rebuilt tape.
func runTapeHist(r *Run) {
	c := r.C
	cfg := drawCfg(c, true)
	var doc []byte
	switch c.Intn("tdoc", 4) {
	case 0:
		doc = genHistDoc(r, cfg.ND, false)
	case 1:
		doc = genHistDoc(r, cfg.ND, true)
	case 2:
		d := GenBulkDoc(c, 100+c.Intn("tsz", 100000), []int{FamMixed, FamDenseArrays, FamDenseObjects, FamStrings, FamNumbers, FamWide, FamHugeString})
		doc = d.B
		cfg.ND = false
	case 3:
		d := GenDoc(c, DocSpec{Family: FamDeep, Target: 2 + c.Intn("tdeep", 3000)})
		doc = d.B
		cfg.ND = false
	}
	r.Res.Inputs["doc"] = b64(doc)
	r.Res.Sample["cfg"] = cfg.String()
	r.Res.Sample["doc"] = string(shortBytes(doc))
	o := parseNew(r, doc, cfg, "parse")
	r.Res.Evals++
	if o == nil {
		return
	}
	r.Res.NonTrivial = true
	if err := CheckTape(o.pj, false); err != nil {
		r.violate("tape", "parsed", fmt.Sprintf("tape of %s: %v", cfg, err))
		return
	}
	ne := c.Intn("nedits", 5)
	for k := 0; k < ne; k++ {
		if c.Intn("editk", 2) == 0 {
			opSet(r, o, "edit")
		} else {
			opDelete(r, o, "edit")
		}
	}
	// sources of different sizes, deserialized alternately into one reused destination (optionally Reset() in
	// between): the destination's stale lengths and capacities are part of the history
	srcs := []*simObj{o}
	for _, d := range []string{`{"a":"b"}`, `[]`, `["` + string(bytes.Repeat([]byte("s"), 300+c.Intn("srclen", 3000))) + `",{"k":[1,2.5,"x"]}]`} {
		if c.Intn("addsrc", 2) == 1 {
			if so := parseNew(r, []byte(d), parseCfg{Copy: true, AVX512: hostAVX512}, "extra source"); so != nil {
				srcs = append(srcs, so)
			}
		}
	}
	s := simdjson.NewSerializer()
	var dst *simdjson.ParsedJson
	rounds := 2 + c.Intn("rounds", 4)
	for k := 0; k < rounds; k++ {
		src := srcs[c.Intn("src", len(srcs))]
		s.CompressMode(simdjson.CompressMode(c.Intn("cmode", 4)))
		reset := false
		if dst != nil && c.Intn("reset", 4) == 0 {
			dst.Reset()
			reset = true
		}
		out, _, err := RoundTrip(s, s, src.pj, dst)
		r.Res.Evals++
		if err != nil {
			return // not a tape-format matter
		}
		if err := CheckTape(out, true); err != nil {
			r.violate("tape", "deserialized", fmt.Sprintf("tape rebuilt by Deserialize in round %d (dst reused %v, Reset %v, %d edits on the first source): %v", k, dst != nil, reset, ne, err))
			return
		}
		if c.Intn("keepdst", 5) != 0 {
			dst = out
		} else {
			dst = nil
		}
		if c.Intn("edit2", 3) == 0 {
			opDelete(r, o, "edit")
		}
	}
	r.fp.u64(hashBytes(doc))
	r.fp.u64(digestRoots(o.model))
}
