package sim

func init() {
	engines["C07"] = RunPipe
}
