package sim

func init() {
	engines["C07"] = func(r *Run) {
		if *flagMode == "race" {
			RunPipeRace(r)
			return
		}
		RunPipe(r)
	}
	engines["C09"] = func(r *Run) {
		if *flagMode == "race" {
			RunStreamRace(r)
			return
		}
		RunStream(r)
	}
	engines["C10"] = func(r *Run) { RunHistEdit(r, "marshal") }
	engines["C13"] = func(r *Run) { RunHistEdit(r, "set") }
	engines["C14"] = func(r *Run) { RunHistEdit(r, "delete") }
	engines["C11"] = RunHistSerial
	engines["C11X"] = RunCrossBuild
	engines["C15"] = RunHistReuse
	engines["C16"] = func(r *Run) {
		if r.C.Intn("c16eng", 4) == 3 {
			// the stream clause: delivered values must not depend on the stream recycling its chunk buffers - a value
			// that changes while held, or whose content is another chunk's data
			r.onlyOracles = map[string]bool{"held-value": true, "history/documents": true, "history/prefix": true}
			RunStream(r)
			return
		}
		RunHistAlias(r)
	}
	engines["C17"] = RunTapeInv
	engines["C19"] = RunFaultBlob
	engines["C05"] = RunFaultDoc
	engines["C20"] = RunConc
}
