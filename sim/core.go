package sim

import (
	"fmt"
	"regexp"
	"runtime"
	"runtime/debug"
	"sort"
	"strings"
	"sync"
	"sync/atomic"
	"testing"

	simdjson "github.com/minio/simdjson-go"
)

// Violation is one oracle failure.
type Violation struct {
	Property string `json:"property"`
	Oracle   string `json:"oracle"`
	Sig      string `json:"signature"` // <property>/<oracle>/<discriminator>, matched against known_findings.jsonl
	Detail   string `json:"detail"`
}

// RunResult is what one seed produced.
type RunResult struct {
	Violations []Violation
	Evals      int               // simulated executions / histories / fault cases in this run
	Steps      int               // scheduler steps (the only notion of simulated time)
	FP         uint64            // fingerprint of the run's event trace
	NonTrivial bool              // by the engine's stated rule
	Distinct   int               // fault engines: number of distinct non-trivial cases in this run (0: the run itself is the case)
	Exhaustive bool              // the run enumerated its finite fault space completely
	Stats      map[string]int    // faults fired, probes hit, policies used, ...
	States     map[string]bool   // abstract states visited
	Sample     map[string]any    // a compact description of the case (for evidence samples)
	Trace      []string          // bounded event trace (for replay files)
	Inputs     map[string]string // materialised inputs (base64) for replay files
	Harness    string            // non-empty: harness trouble (never a property violation)
}

// Run is the context of one simulated run.
type Run struct {
	T    *testing.T
	C    *Chooser
	Prop string
	Tier string
	Res  *RunResult
	fp   fp
	// onlyOracles, when set, restricts which oracles may raise an alarm in this run (the others are counted).
	onlyOracles map[string]bool
	otherFailed bool
	held        []heldOutput
	// serDst is the destination the read-back round trips of this run deserialize into when they reuse one
	// ("pj2, err = s.Deserialize(output, pj2)", the idiom of the package's own tests)
	serDst *simdjson.ParsedJson
}

// heldOutput is a byte slice an API returned earlier, with a private copy taken at that moment.
type heldOutput struct {
	what string
	orig []byte
	cp   []byte
}

// hold remembers a returned slice; checkHeld verifies later that nothing the library did afterwards changed it.
func (r *Run) hold(what string, out []byte) {
	if len(r.held) >= 6 || len(out) == 0 {
		return
	}
	r.held = append(r.held, heldOutput{what, out, append([]byte(nil), out...)})
}

func (r *Run) checkHeld() {
	for _, h := range r.held {
		if string(h.orig) != string(h.cp) {
			r.violate("W-marshal", "output-changed-later", fmt.Sprintf("the bytes returned by %s changed after later calls: now %s, were %s", h.what, shortBytes(firstDiff(h.orig, h.cp)), shortBytes(firstDiff(h.cp, h.orig))))
			break
		}
	}
	r.held = r.held[:0]
}

func newRun(t *testing.T, c *Chooser, prop, tier string) *Run {
	return &Run{T: t, C: c, Prop: prop, Tier: tier, fp: newFP(),
		Res: &RunResult{Stats: map[string]int{}, States: map[string]bool{}, Sample: map[string]any{}, Inputs: map[string]string{}}}
}

func (r *Run) thorough() bool { return r.Tier == "thorough" }

// violate records a violation of the run's property.
func (r *Run) violate(oracle, discriminator, detail string) {
	if r.onlyOracles != nil && !r.onlyOracles[oracle] && !r.onlyOracles[oracle+"/"+discriminator] {
		r.Res.Stats["ignored_other_oracle_"+oracle]++
		r.otherFailed = true
		return
	}
	if len(r.Res.Violations) >= 8 {
		return
	}
	if len(detail) > 1500 {
		detail = detail[:1500] + "…"
	}
	r.Res.Violations = append(r.Res.Violations, Violation{
		Property: r.Prop, Oracle: oracle, Sig: r.Prop + "/" + oracle + "/" + discriminator, Detail: detail})
}

func (r *Run) failed() bool { return len(r.Res.Violations) > 0 || r.otherFailed }

func (r *Run) stat(name string, n int) { r.Res.Stats[name] += n }

func (r *Run) state(s string) { r.Res.States[s] = true }

func (r *Run) trace(format string, a ...any) {
	s := fmt.Sprintf(format, a...)
	r.fp.str(s)
	if len(r.Res.Trace) < 400 {
		r.Res.Trace = append(r.Res.Trace, s)
	}
}

func (r *Run) finish() {
	r.Res.FP = r.fp.h
}

// ---- panic signatures ---------------------------------------------------------------------

var numRe = regexp.MustCompile(`[0-9]+`)
var hexRe = regexp.MustCompile(`0x[0-9a-fA-F]+`)

// msgClass normalises a panic / error message: numbers become N.
func msgClass(s string) string {
	// "<class> || <details>": only the class part names the kind of failure
	if i := strings.Index(s, " || "); i >= 0 {
		s = s[:i]
	}
	s = hexRe.ReplaceAllString(s, "N")
	s = numRe.ReplaceAllString(s, "N")
	if len(s) > 100 {
		s = s[:100]
	}
	b := []byte(s)
	for i, c := range b {
		if c < 0x20 || c > 0x7e {
			b[i] = '?'
		}
	}
	return string(b)
}

// repoFrames extracts the innermost simdjson-go frame from the current stack (call inside a deferred recover).
func repoFrames() string {
	return firstRepoFrame(string(debug.Stack()))
}

func firstRepoFrame(stack string) string {
	lines := strings.Split(stack, "\n")
	for i := 0; i+1 < len(lines); i++ {
		l := lines[i]
		if strings.HasPrefix(l, "github.com/minio/simdjson-go.") {
			fn := strings.TrimPrefix(l, "github.com/minio/simdjson-go.")
			if k := strings.LastIndex(fn, "("); k > 0 {
				fn = fn[:k]
			}
			if strings.HasPrefix(fn, "sim") || strings.HasPrefix(fn, "Sim") {
				continue
			}
			return fn
		}
	}
	return "?"
}

func panicSig(p *WalkPanic) string {
	return "panic@" + p.Stack + ":" + msgClass(fmt.Sprint(p.Val))
}

// ---- cooperative scheduler over hook tokens -------------------------------------------------

// Token is a goroutine parked at a hook or at a simulator-owned seam.
type Token struct {
	Owner  string
	Name   string // event name
	Ev     simdjson.SimEvent
	Arg    int
	H      simdjson.SimHandle
	resume chan struct{}
	seen   bool
	data   any
}

func (t *Token) String() string { return fmt.Sprintf("%s.%s(%d)", t.Owner, t.Name, t.Arg) }

// Sched parks hook callers and releases them one decision at a time.
type Sched struct {
	mu       sync.Mutex
	parked   []*Token
	free     atomic.Bool // nothing parks any more: every hook and seam call returns at once (see -sim.freeafter)
	classify func(ev simdjson.SimEvent, h simdjson.SimHandle, arg int) (park bool, owner string)
}

var curSched atomic.Pointer[Sched]

var evNames = map[simdjson.SimEvent]string{
	simdjson.SimPAcquire: "PAcquire", simdjson.SimPSend: "PSend", simdjson.SimPDone: "PDone",
	simdjson.SimCRecv: "CRecv", simdjson.SimCReceived: "CReceived", simdjson.SimCStart: "CStart", simdjson.SimCDone: "CDone",
	simdjson.SimNDChunkStart: "NDChunkStart", simdjson.SimNDChunkParsed: "NDChunkParsed",
	simdjson.SimPoolGet: "PoolGet", simdjson.SimPoolPutBefore: "PoolPutBefore", simdjson.SimPoolPutAfter: "PoolPutAfter",
}

func hookDispatch(ev simdjson.SimEvent, h simdjson.SimHandle, arg int) {
	if t := hookTap.Load(); t != nil {
		(*t)(ev, h, arg)
	}
	s := curSched.Load()
	if s == nil {
		return
	}
	park, owner := s.classify(ev, h, arg)
	if !park {
		return
	}
	s.Park(&Token{Owner: owner, Name: evNames[ev], Ev: ev, Arg: arg, H: h})
}

// Park registers tok and blocks the calling goroutine until the scheduler releases it.
func (s *Sched) Park(tok *Token) {
	if s.free.Load() {
		return
	}
	tok.resume = make(chan struct{})
	s.mu.Lock()
	s.parked = append(s.parked, tok)
	s.mu.Unlock()
	<-tok.resume
}

// Snapshot returns the parked tokens in canonical order (owner, event, arg) — never arrival order.
func (s *Sched) Snapshot() []*Token {
	s.mu.Lock()
	out := append([]*Token(nil), s.parked...)
	s.mu.Unlock()
	sort.SliceStable(out, func(i, j int) bool {
		a, b := out[i], out[j]
		if a.Owner != b.Owner {
			return a.Owner < b.Owner
		}
		if a.Ev != b.Ev {
			return a.Ev < b.Ev
		}
		return a.Arg < b.Arg
	})
	return out
}

// Release lets tok's goroutine continue.
func (s *Sched) Release(tok *Token) {
	s.mu.Lock()
	for i, t := range s.parked {
		if t == tok {
			s.parked = append(s.parked[:i], s.parked[i+1:]...)
			break
		}
	}
	s.mu.Unlock()
	close(tok.resume)
}

// ReleaseAll releases everything parked (used to wind a run down after a violation).
func (s *Sched) ReleaseAll() int {
	s.mu.Lock()
	p := s.parked
	s.parked = nil
	s.mu.Unlock()
	for _, t := range p {
		close(t.resume)
	}
	return len(p)
}

// runBubble runs fn inside a synctest bubble and converts the end-of-bubble panics into a result:
// leak is non-empty when goroutines were still blocked when the root returned.
func runBubble(t *testing.T, fn func(t *testing.T)) (leak string, harness string) {
	defer func() {
		if rec := recover(); rec != nil {
			msg := fmt.Sprint(rec)
			switch {
			case strings.Contains(msg, "deadlock: all goroutines in bubble are blocked"),
				strings.Contains(msg, "blocked goroutines remain"),
				strings.Contains(msg, "main bubble goroutine has exited but blocked goroutines remain"):
				leak = msg
			default:
				harness = "panic out of bubble: " + msg + "\n" + string(debug.Stack())
			}
		}
	}()
	// Channels belong to the bubble they were made in, and the library may keep objects that hold channels in
	// package-level pools (it does not today; a correct pool of parser scratch state is a legitimate change). Such an
	// object must not travel from one bubble into another or out of one: synctest would end the process ("send on
	// synctest channel from outside bubble") for something that is no defect. Two collections empty every sync.Pool
	// (primary and victim cache), so each bubble starts and ends with empty pools; inside one bubble pooled objects are
	// reused normally.
	drainPools()
	defer drainPools()
	syncTest(t, fn)
	return
}

func drainPools() {
	runtime.GC()
	runtime.GC()
}
