package sim

import "testing"

func TestSim(t *testing.T) { WorkerMain(t) }
