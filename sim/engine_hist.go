package sim

import (
	"bytes"
	"encoding/json"
	"errors"
	"fmt"
	"math"
	"strings"

	simdjson "github.com/minio/simdjson-go"
)

// E3 "hist": operation histories on long-lived objects against the reference model.
// The nondeterminism is the history; the faults are operations (disallowed calls, failed parses,
// scribbling over the caller's buffer, mode switches).

// ---- objects under test ---------------------------------------------------------------------

type simBuf struct {
	b         []byte
	scribbled bool
}

type simObj struct {
	pj      *simdjson.ParsedJson
	model   []*MV
	nd      bool
	copy    bool    // strings were copied (or the object is a clone / deserialized: independent of any buffer)
	buf     *simBuf // input buffer the object may alias (nil: independent)
	edited  bool
	origin  string
	invalid bool // content unspecified (consumed by reuse or failed parse); may still be passed as reuse
	kept    []keptIter
}

// keptIter is an iterator value the caller held on to after an edit (a copy, the way Elements keep theirs): a later
// Set* through it addresses the same tape position, whatever was written there in between.
type keptIter struct {
	pos Pos
	it  simdjson.Iter
}

func (o *simObj) readable() bool {
	if o.invalid || o.pj == nil {
		return false
	}
	if !o.copy && o.buf != nil && o.buf.scribbled {
		return false
	}
	return true
}

// ---- navigation -----------------------------------------------------------------------------

// locateFlat positions an iterator on the value at pos using only the flat AdvanceInto walk.
func locateFlat(pj *simdjson.ParsedJson, pos Pos) (it simdjson.Iter, err error) {
	err = safely(func() error {
		it = pj.Iter()
		type frame struct {
			obj     bool
			idx     int // index of the next value
			wantKey bool
		}
		var stack []frame
		root := -1
		inRoot := false
		steps := 0
		match := func() bool {
			// is the value about to be reported at path == pos ?
			if root != pos[0] || len(stack) != len(pos)-1 {
				return false
			}
			for d, f := range stack {
				if f.idx != pos[d+1] {
					return false
				}
			}
			return true
		}
		for {
			steps++
			if steps > 8*len(pj.Tape)+64 {
				return errStepCap
			}
			tag := it.AdvanceInto()
			switch tag {
			case simdjson.TagEnd:
				return fmt.Errorf("position %v not found by flat walk", pos)
			case simdjson.TagRoot:
				inRoot = !inRoot
				if inRoot {
					root++
				}
				continue
			case simdjson.TagObjectEnd, simdjson.TagArrayEnd:
				if len(stack) == 0 {
					return errors.New("unbalanced end tag")
				}
				stack = stack[:len(stack)-1]
				if len(stack) > 0 {
					f := &stack[len(stack)-1]
					f.idx++
					f.wantKey = f.obj
				}
				continue
			}
			if len(stack) > 0 {
				f := &stack[len(stack)-1]
				if f.obj && f.wantKey {
					f.wantKey = false
					continue
				}
			}
			// a value starts here
			if len(pos) == 1 {
				if root == pos[0] && len(stack) == 0 {
					return nil
				}
			} else if match() {
				return nil
			}
			switch tag {
			case simdjson.TagObjectStart:
				stack = append(stack, frame{obj: true, wantKey: true})
			case simdjson.TagArrayStart:
				stack = append(stack, frame{})
			default:
				if len(stack) > 0 {
					f := &stack[len(stack)-1]
					f.idx++
					f.wantKey = f.obj
				}
			}
		}
	})
	return
}

// locateAPI positions an iterator on the value at pos the way user code does: Advance over roots,
// Root, NextElementBytes for object members, Array.Iter+Advance for array elements.
// restricted reports whether the iterator's scope is limited to the value (safe to marshal).
func locateAPI(pj *simdjson.ParsedJson, model []*MV, pos Pos) (it simdjson.Iter, restricted bool, err error) {
	err = safely(func() error {
		top := pj.Iter()
		for k := 0; k <= pos[0]; k++ {
			if t := top.Advance(); t != simdjson.TypeRoot {
				return fmt.Errorf("root #%d not found by Advance (got %v)", k, t)
			}
		}
		_, inner, e := top.Root(nil)
		if e != nil {
			return e
		}
		it = *inner
		restricted = true
		m := model[pos[0]]
		for d := 1; d < len(pos); d++ {
			x := pos[d]
			switch m.K {
			case KObject:
				obj, e := it.Object(nil)
				if e != nil {
					return e
				}
				var el simdjson.Iter
				for k := 0; k <= x; k++ {
					_, t, e := obj.NextElementBytes(&el)
					if e != nil {
						return e
					}
					if t == simdjson.TypeNone {
						return fmt.Errorf("object member #%d not reachable through NextElementBytes (object ended at %d)", x, k)
					}
				}
				it = el
				restricted = true
				m = m.Vals[x]
			case KArray:
				arr, e := it.Array(nil)
				if e != nil {
					return e
				}
				ai := arr.Iter()
				for k := 0; k <= x; k++ {
					if t := ai.Advance(); t == simdjson.TypeNone {
						return fmt.Errorf("array element #%d not reachable through Advance (array ended at %d)", x, k)
					}
				}
				it = ai
				restricted = false
				m = m.Arr[x]
			default:
				return fmt.Errorf("model position %v runs through a scalar", pos)
			}
		}
		return nil
	})
	return
}

// ---- read-back battery ------------------------------------------------------------------------

const (
	bInto = 1 << iota
	bAdv
	bAIter
	bForEach
	bIface
	bFind
	bMarshal
	bSerial
	bTape
	bAll = bInto | bAdv | bAIter | bForEach | bIface | bFind | bMarshal | bSerial
)

func hasNonFinite(roots []*MV) bool {
	var rec func(m *MV) bool
	rec = func(m *MV) bool {
		if m.K == KFloat && (math.IsNaN(m.F) || math.IsInf(m.F, 0)) {
			return true
		}
		for _, e := range m.Arr {
			if rec(e) {
				return true
			}
		}
		for _, e := range m.Vals {
			if rec(e) {
				return true
			}
		}
		return false
	}
	for _, m := range roots {
		if rec(m) {
			return true
		}
	}
	return false
}

func hasNegZero(roots []*MV) bool {
	var rec func(m *MV) bool
	rec = func(m *MV) bool {
		if m.K == KFloat && m.F == 0 && math.Signbit(m.F) {
			return true
		}
		for _, e := range m.Arr {
			if rec(e) {
				return true
			}
		}
		for _, e := range m.Vals {
			if rec(e) {
				return true
			}
		}
		return false
	}
	for _, m := range roots {
		if rec(m) {
			return true
		}
	}
	return false
}

// walkerFail records a walker problem; panics get their own signature.
func walkerFail(r *Run, oracle, what string, err error) {
	var wp *WalkPanic
	if errors.As(err, &wp) {
		r.violate(oracle, panicSig(wp), fmt.Sprintf("%s: %v", what, err))
		return
	}
	if errors.Is(err, errStepCap) {
		r.violate(oracle, "non-termination", fmt.Sprintf("%s: %v", what, err))
		return
	}
	r.violate(oracle, "error:"+msgClass(err.Error()), fmt.Sprintf("%s: %v", what, err))
}

// readBack compares what the selected APIs expose with the model.
func readBack(r *Run, o *simObj, which int, what string, sers []*simdjson.Serializer) {
	pj, model := o.pj, o.model
	type rw struct {
		bit  int
		name string
		fn   func(*simdjson.ParsedJson) ([]*MV, error)
	}
	for _, w := range []rw{{bInto, "W-into", WalkInto}, {bAdv, "W-adv", WalkAdvance}, {bAIter, "W-aiter", WalkAdvanceIter}, {bForEach, "W-foreach", WalkForEach}} {
		if which&w.bit == 0 || r.failed() {
			continue
		}
		got, err := w.fn(pj)
		if err != nil {
			walkerFail(r, w.name, what, err)
			continue
		}
		if d := DiffRoots(model, got, EqExact); d != "" {
			r.violate(w.name, "mismatch", fmt.Sprintf("%s: %s exposes a different document: %s", what, w.name, d))
		}
	}
	if which&bIface != 0 && !r.failed() {
		v, err := WalkInterface(pj)
		if err != nil {
			walkerFail(r, "W-iface", what, err)
		} else if d := DiffInterfaceRoots(model, v); d != "" {
			r.violate("W-iface", "mismatch", fmt.Sprintf("%s: Interface() exposes a different document: %s", what, d))
		}
	}
	if which&bFind != 0 && !r.failed() {
		d, err := CheckFind(pj, model)
		if err != nil {
			walkerFail(r, "W-find", what, err)
		} else if d != "" {
			r.violate("W-find", "mismatch", fmt.Sprintf("%s: %s", what, d))
		}
	}
	if which&bMarshal != 0 && !r.failed() {
		checkMarshalRoot(r, o, what)
	}
	if which&bSerial != 0 && !r.failed() && len(sers) > 0 {
		s := sers[r.C.Intn("rbser", len(sers))]
		// the result is read at once and not kept: the destination of the previous round trip of this run may be reused
		var dst *simdjson.ParsedJson
		if r.C.Intn("rbdst", 2) == 1 {
			dst = r.serDst
		}
		out, _, err := RoundTrip(s, s, pj, dst)
		r.serDst = out
		if err != nil {
			walkerFail(r, "W-ser", what+": serialize round trip", err)
		} else {
			got, err := WalkInto(out)
			if err != nil {
				walkerFail(r, "W-ser", what+": reading the deserialized tape", err)
			} else if d := DiffRoots(model, got, EqExact); d != "" {
				r.violate("W-ser", "mismatch", fmt.Sprintf("%s: serialize round trip exposes a different document: %s", what, d))
			}
			if which&bTape != 0 && !r.failed() {
				if err := CheckTape(out, true); err != nil {
					r.violate("tape", "deserialized", fmt.Sprintf("%s: deserialized tape: %v", what, err))
				}
			}
		}
	}
}

// refParseValue parses any single JSON value (by wrapping it in an array).
func refParseValue(b []byte) (*MV, bool) {
	w := make([]byte, 0, len(b)+2)
	w = append(w, '[')
	w = append(w, b...)
	w = append(w, ']')
	res := RefParse(w)
	if !res.OK || len(res.Roots[0].Arr) != 1 {
		return nil, false
	}
	return res.Roots[0].Arr[0], true
}

func checkMarshalRoot(r *Run, o *simObj, what string) {
	how := r.C.Intn("marshalvia", 3)
	what += []string{" (fresh Iter)", " (Iter after Advance)", " (Iter after AdvanceInto)"}[how]
	if r.C.Intn("marshaldst", 3) == 0 {
		// through MarshalJSONBuffer with a destination that may already hold bytes
		pk := 1 + r.C.Intn("marshaldstk", len(marshalPrefixes)-1)
		how += 3 * pk
		what += fmt.Sprintf(" (MarshalJSONBuffer, destination kind %d)", pk)
	}
	out, err := MarshalRootVia(o.pj, how)
	nonFinite := hasNonFinite(o.model)
	if err != nil {
		var wp *WalkPanic
		if errors.As(err, &wp) {
			r.violate("W-marshal", panicSig(wp), fmt.Sprintf("%s: MarshalJSON: %v", what, err))
			return
		}
		if nonFinite {
			r.stat("marshal_nonfinite_error", 1)
			return
		}
		r.violate("W-marshal", "error:"+msgClass(err.Error()), fmt.Sprintf("%s: MarshalJSON failed: %v", what, err))
		return
	}
	if nonFinite {
		r.violate("W-marshal", "nonfinite-emitted", fmt.Sprintf("%s: document holds a non-finite float but MarshalJSON returned output %s", what, shortBytes(out)))
		return
	}
	checkMarshalText(r, out, o.model, true, what+": Iter.MarshalJSON from the root")
}

// checkMarshalText verifies marshalled text: valid JSON, same document, fixed point.
func checkMarshalText(r *Run, out []byte, model []*MV, roots bool, what string) {
	r.hold(what, out)
	var res RefResult
	if roots {
		// roots separated by newlines; each line must be valid JSON by encoding/json too
		for _, line := range bytes.Split(out, []byte{'\n'}) {
			if !json.Valid(line) {
				r.violate("W-marshal", "invalid-json", fmt.Sprintf("%s: output line is not valid JSON: %s", what, shortBytes(line)))
				return
			}
		}
		res = RefParseND(out)
		if !res.OK {
			// a document whose top-level value was replaced by null marshals as a bare scalar line
			res = RefResult{OK: true}
			for _, line := range bytes.Split(out, []byte{'\n'}) {
				v, ok := refParseValue(line)
				if !ok {
					res.OK = false
					break
				}
				res.Roots = append(res.Roots, v)
			}
		}
		if !res.OK {
			r.violate("W-marshal", "invalid-json", fmt.Sprintf("%s: output rejected by the reference parser: %s", what, shortBytes(out)))
			return
		}
		if bytes.Count(out, []byte{'\n'}) != len(model)-1 {
			r.violate("W-marshal", "root-separators", fmt.Sprintf("%s: %d roots but %d newlines in output", what, len(model), bytes.Count(out, []byte{'\n'})))
			return
		}
	} else {
		if !json.Valid(out) {
			r.violate("W-marshal", "invalid-json", fmt.Sprintf("%s: output is not valid JSON: %s", what, shortBytes(out)))
			return
		}
		v, ok := refParseValue(out)
		if !ok {
			r.violate("W-marshal", "invalid-json", fmt.Sprintf("%s: output rejected by the reference parser: %s", what, shortBytes(out)))
			return
		}
		res = RefResult{OK: true, Roots: []*MV{v}}
	}
	if d := DiffRoots(model, res.Roots, EqNumeric); d != "" {
		r.violate("W-marshal", "mismatch", fmt.Sprintf("%s: output denotes a different document: %s (output %s)", what, d, shortBytes(out)))
		return
	}
	// fixed point (object/array outputs only; documents with a negative-zero float are excluded: C03+C18 force "-0" -> int 0)
	if hasNegZero(model) {
		return
	}
	for _, m := range model {
		if !m.isContainer() {
			return
		}
	}
	var pj2 *simdjson.ParsedJson
	var err error
	e2 := safely(func() error {
		pj2, err = doParse(out, nil, parseCfg{ND: len(model) > 1, Copy: true, AVX512: hostAVX512})
		return nil
	})
	if e2 != nil || err != nil {
		r.violate("W-marshal", "fixed-point-reparse", fmt.Sprintf("%s: marshalled output is not accepted by Parse: %v %v (%s)", what, e2, err, shortBytes(out)))
		return
	}
	out2, err := MarshalRoot(pj2)
	if err != nil {
		r.violate("W-marshal", "fixed-point-remarshal", fmt.Sprintf("%s: re-marshalling failed: %v", what, err))
		return
	}
	if !bytes.Equal(out, out2) {
		r.violate("W-marshal", "fixed-point", fmt.Sprintf("%s: Marshal(Parse(out)) != out: %s vs %s", what, shortBytes(firstDiff(out, out2)), shortBytes(firstDiff(out2, out))))
	}
}

func firstDiff(a, b []byte) []byte {
	i := 0
	for i < len(a) && i < len(b) && a[i] == b[i] {
		i++
	}
	lo := i - 8
	if lo < 0 {
		lo = 0
	}
	hi := i + 16
	if hi > len(a) {
		hi = len(a)
	}
	return a[lo:hi]
}

// checkMarshalInner marshals restricted iterators positioned on inner values.
func checkMarshalInner(r *Run, o *simObj, what string) {
	c := r.C
	poss := allPositions(o.model, true)
	if len(poss) == 0 {
		return
	}
	n := 1 + c.Intn("minner", 3)
	for k := 0; k < n && !r.failed(); k++ {
		pos := poss[c.Intn("mpos", len(poss))]
		m := getAt(o.model, pos)
		par := getAt(o.model, pos[:len(pos)-1])
		innerPK := 0 // destination kind for the MarshalJSONBuffer variants (0: none)
		if c.Intn("minnerdst", 3) == 0 {
			innerPK = 1 + c.Intn("minnerdstk", len(marshalPrefixes)-1)
		}
		var out []byte
		var how string
		err := safely(func() error {
			// parent container iterator via API navigation
			pit, _, e := locateAPI(o.pj, o.model, pos[:len(pos)-1])
			if e != nil {
				return e
			}
			x := pos[len(pos)-1]
			switch par.K {
			case KObject:
				obj, e := pit.Object(nil)
				if e != nil {
					return e
				}
				switch c.Intn("mhow", 3) {
				case 0:
					how = "NextElementBytes"
					var el simdjson.Iter
					for i := 0; i <= x; i++ {
						if _, t, e := obj.NextElementBytes(&el); e != nil || t == simdjson.TypeNone {
							return fmt.Errorf("member #%d unreachable: %v", x, e)
						}
					}
					out, e = appendMarshal(innerPK, el.MarshalJSONBuffer)
					return e
				case 1:
					how = "Object.Parse/Elements"
					els, e := obj.Parse(nil)
					if e != nil {
						return e
					}
					if x >= len(els.Elements) {
						return fmt.Errorf("Object.Parse returned %d elements, member #%d missing", len(els.Elements), x)
					}
					elIt := els.Elements[x].Iter // MarshalJSON consumes the iterator: work on a copy
					out, e = elIt.MarshalJSON()
					if e != nil {
						return e
					}
					// and the whole object through Elements.MarshalJSON
					all, e := appendMarshal(innerPK, els.MarshalJSONBuffer)
					if e != nil {
						if hasNonFinite([]*MV{par}) {
							return nil
						}
						return fmt.Errorf("Elements.MarshalJSON: %w", e)
					}
					// marshalling reads: the same Elements marshal the same way again
					if again, e2 := els.MarshalJSON(); e2 != nil || !bytes.Equal(again, all) {
						return fmt.Errorf("Elements.MarshalJSON called a second time on the same Elements: %v, %d bytes against %d the first time", e2, len(again), len(all))
					}
					if hasNonFinite([]*MV{par}) {
						r.violate("W-marshal", "nonfinite-emitted", what+": Elements.MarshalJSON emitted a non-finite float: "+string(shortBytes(all)))
					} else {
						checkMarshalText(r, all, []*MV{par}, false, what+": Elements.MarshalJSON of "+pos[:len(pos)-1].String())
					}
					return nil
				default:
					// FindKey gives a restricted iterator for the first member with that key
					key := par.Keys[x]
					first := -1
					for i, k := range par.Keys {
						if bytes.Equal(k, key) {
							first = i
							break
						}
					}
					how = "FindKey"
					el := obj.FindKey(string(key), nil)
					if el == nil {
						return fmt.Errorf("FindKey(%q) returned nil for a present key", key)
					}
					m = par.Vals[first]
					out, e = el.Iter.MarshalJSON()
					return e
				}
			case KArray:
				arr, e := pit.Array(nil)
				if e != nil {
					return e
				}
				if c.Intn("mhowa", 2) == 0 {
					how = "AdvanceIter"
					ai := arr.Iter()
					var el simdjson.Iter
					for i := 0; i <= x; i++ {
						t, e := ai.AdvanceIter(&el)
						if e != nil || t == simdjson.TypeNone {
							return fmt.Errorf("element #%d unreachable through AdvanceIter: %v", x, e)
						}
					}
					out, e = el.MarshalJSON()
					return e
				}
				how = "Array.MarshalJSON"
				m = par
				out, e = appendMarshal(innerPK, arr.MarshalJSONBuffer)
				return e
			}
			return fmt.Errorf("parent of %v is a scalar", pos)
		})
		w := fmt.Sprintf("%s: marshal inner value %v via %s", what, pos, how)
		if r.failed() {
			return
		}
		if err != nil {
			var wp *WalkPanic
			if errors.As(err, &wp) {
				r.violate("W-marshal", panicSig(wp), w+": "+err.Error())
				return
			}
			if hasNonFinite([]*MV{m}) {
				continue
			}
			r.violate("W-marshal", "inner-error:"+msgClass(err.Error()), w+": "+err.Error())
			return
		}
		if hasNonFinite([]*MV{m}) {
			r.violate("W-marshal", "nonfinite-emitted", w+": non-finite float marshalled as "+string(shortBytes(out)))
			return
		}
		checkMarshalText(r, out, []*MV{m}, false, w)
	}
}

// ---- operations -----------------------------------------------------------------------------

// genHistDoc draws a small document inline (shrinkable) or occasionally a bulk one.
// genDeepMixed: depth levels of arrays and objects in drawn alternation, scalar siblings on some levels (positions for
// edits and deletions at every depth) and a scalar at the bottom.
func genDeepMixed(c *Chooser, depth int) []byte {
	var b bytes.Buffer
	closers := make([]byte, 0, depth)
	tails := make([]string, 0, depth)
	for i := 0; i < depth; i++ {
		sib := c.Intn("deepsib", 6)
		if c.Intn("deepobj", 2) == 1 {
			b.WriteByte('{')
			if sib == 0 {
				fmt.Fprintf(&b, `"s%d":%d,`, i, i)
			}
			b.WriteString(`"k":`)
			closers = append(closers, '}')
			if sib == 1 {
				tails = append(tails, fmt.Sprintf(`,"t%d":"v%d"`, i, i))
			} else {
				tails = append(tails, "")
			}
		} else {
			b.WriteByte('[')
			if sib == 0 {
				fmt.Fprintf(&b, `%d.5,`, i)
			}
			closers = append(closers, ']')
			if sib == 1 {
				tails = append(tails, `,null`)
			} else if sib == 2 {
				tails = append(tails, `,[],{}`)
			} else {
				tails = append(tails, "")
			}
		}
	}
	b.WriteString([]string{`1`, `"leaf"`, `{}`, `[]`, `true`, `-2.5e3`}[c.Intn("deepleaf", 6)])
	for i := depth - 1; i >= 0; i-- {
		b.WriteString(tails[i])
		b.WriteByte(closers[i])
	}
	return b.Bytes()
}

func genHistDoc(r *Run, nd bool, big bool) []byte {
	c := r.C
	one := func(target int) []byte {
		fam := []int{FamMixed, FamMixed, FamKeyed, FamNumbers, FamStrings, FamMixed}[c.Intn("hfam", 6)]
		if big {
			return GenBulkDoc(c, target, []int{fam}).B
		}
		if c.Intn("hdeep", 14) == 0 {
			// nesting around and beyond every power of two a fixed-size scope table might have
			lo := []int{5, 60, 120, 250, 505, 1015, 2040}[c.Intn("hdeepclass", 7)]
			r.stat("deep_documents", 1)
			return genDeepMixed(c, lo+c.Intn("hdeepvar", 20))
		}
		return GenDoc(c, DocSpec{Family: fam, Target: target, WS: c.Pick("hws", 5, 2, 1), MaxDepth: 4, StrMax: 40}).B
	}
	target := 10 + c.Intn("hsize", 200)
	if big {
		target = 2000 + c.Intn("hbig", 30000)
	}
	if !nd {
		d := one(target)
		if c.Intn("edgews", 4) == 0 {
			// ASCII white space around the document (results may be offsets into the caller's buffer)
			lead := []string{" ", "\n", "\t \r\n", "   ", ""}[c.Intn("edgelead", 5)]
			trail := []string{" ", "\n", "\r\n\t ", "", "  \n"}[c.Intn("edgetrail", 5)]
			if c.Intn("edgebig", 4) == 0 {
				// padding that carries the raw length over an internal size threshold the trimmed document stays below
				big := strings.Repeat([]string{" ", "\n", " \t", "\r\n"}[c.Intn("edgebigk", 4)], 1+c.Intn("edgebign", 5000))
				switch c.Intn("edgebigside", 3) {
				case 0:
					lead += big
				case 1:
					trail += big
				default:
					lead += big[:len(big)/2]
					trail += big[len(big)/2:]
				}
			}
			d = append(append([]byte(lead), d...), trail...)
		}
		return d
	}
	var buf bytes.Buffer
	lines := 1 + c.Intn("hlines", 4)
	for i := 0; i < lines; i++ {
		buf.Write(bytes.ReplaceAll(one(target/lines+4), []byte{'\n'}, []byte{' '}))
		buf.WriteString([]string{"\n", "\r\n", "\n\n", " \n\t\n"}[c.Intn("hsep", 4)])
	}
	return buf.Bytes()
}

// parseNew parses doc into a new object; returns nil if the document is (correctly) rejected.
func parseNew(r *Run, doc []byte, cfg parseCfg, what string) *simObj {
	return parseNewReuse(r, doc, cfg, what, nil)
}

// parseNewReuse is parseNew with a reuse argument (an object with a past).
func parseNewReuse(r *Run, doc []byte, cfg parseCfg, what string, reuse *simdjson.ParsedJson) *simObj {
	buf := &simBuf{b: append([]byte(nil), doc...)}
	ref := refFor(doc, cfg.ND)
	var pj *simdjson.ParsedJson
	var perr error
	err := safely(func() error {
		pj, perr = doParse(buf.b, reuse, cfg)
		return nil
	})
	if err != nil {
		walkerFail(r, "panic", what, err)
		return nil
	}
	if perr == nil && pj != nil {
		if terr := CheckTape(pj, false); terr != nil {
			r.violate("tape", "parsed", fmt.Sprintf("%s (%s): %v", what, cfg, terr))
			return nil
		}
	}
	if ref.Ambiguous {
		return nil
	}
	if (perr == nil) != ref.OK {
		r.violate("outcome", "parse-verdict", fmt.Sprintf("%s: parse ok=%v (%v) but reference ok=%v (%s)", what, perr == nil, perr, ref.OK, ref.Err))
		return nil
	}
	if perr != nil {
		return nil
	}
	return &simObj{pj: pj, model: ref.Roots, nd: cfg.ND, copy: cfg.Copy, buf: buf, origin: what}
}

var setValsInt = []int64{0, 1, -1, 42, math.MaxInt64, math.MinInt64, 1 << 53, -(1 << 31)}
var setValsUint = []uint64{0, 1, math.MaxUint64, 1 << 63, 1<<63 - 1, 12345678901234567890}
var setValsFloat = []float64{0, 1.5, -2.25, 1e21, 1e-7, 5e-324, math.MaxFloat64, 0.1, 1e20, 123456789.125, -0.0,
	9223372036854775808.0, -9223372036854775808.0, 18446744073709551616.0, 9223372036854774784.0, 4294967296.0, 9007199254740992.0}

func drawSetString(c *Chooser) []byte {
	switch c.Intn("ssk", 6) {
	case 5:
		// one byte that needs escaping somewhere inside plain filler (every such byte, at every alignment)
		n := 1 + c.Intn("sscn", 40)
		b := bytes.Repeat([]byte{'a'}, n)
		if c.Intn("sscfill", 3) == 0 {
			b = bytes.Repeat([]byte("é"), n)
		}
		esc := byte(c.Intn("sscb", 34))
		if esc == 32 {
			esc = '"'
		} else if esc == 33 {
			esc = '\\'
		}
		b[c.Intn("sscpos", len(b))] = esc
		return b
	case 0:
		return []byte{}
	case 1:
		return []byte("plain")
	case 2:
		// every byte that needs escaping
		n := 1 + c.Intn("sslen", 12)
		b := make([]byte, n)
		for i := range b {
			b[i] = []byte{0, 1, 7, 8, 9, 10, 12, 13, 0x1f, '"', '\\', '/', 0x7f, 'a', ' ', 0x1b}[c.Intn("ssb", 16)]
		}
		return b
	case 3:
		return []byte("héllo € \U0001F600")
	default:
		n := []int{31, 32, 33, 64, 200, 1000}[c.Intn("ssl", 6)]
		b := make([]byte, n)
		for i := range b {
			b[i] = byte('a' + (i*7+n)%26)
		}
		return b
	}
}

// opSet applies one drawn Set* call at a drawn position (allowed or not) and updates the model.
func opSet(r *Run, o *simObj, what string) {
	c := r.C
	poss := allPositions(o.model, true)
	if len(poss) == 0 {
		// nothing below the top level (e.g. [] or a document already nulled): address the top-level value itself
		poss = []Pos{{c.Intn("setroot0", len(o.model))}}
	}
	pos := poss[c.Intn("setpos", len(poss))]
	if c.Intn("settoplevel", 25) == 0 {
		// the top-level value of a document is a value position too (SetNull accepts objects and arrays)
		pos = Pos{c.Intn("setroot", len(o.model))}
	}
	if len(poss) > 5000 && c.Intn("setcontainer", 2) == 0 {
		// big documents: scalars outnumber containers by far; aim at a (non-root) container half of the time
		var cs []Pos
		for _, p := range allContainers(o.model) {
			if len(p) > 1 {
				cs = append(cs, p)
				if len(cs) >= 64 {
					break
				}
			}
		}
		if len(cs) > 0 {
			pos = cs[c.Intn("setcontpos", len(cs))]
		}
	}
	cur := getAt(o.model, pos)
	var it simdjson.Iter
	itp := &it
	var err error
	var els *simdjson.Elements // nav 2: the member is addressed through the Elements of its object
	nav := c.Intn("nav", 2)
	if len(pos) >= 2 && getAt(o.model, pos[:len(pos)-1]).K == KObject && c.Intn("navelems", 5) == 0 {
		nav = 2
	}
	switch nav {
	case 0:
		it, err = locateFlat(o.pj, pos)
	case 1:
		it, _, err = locateAPI(o.pj, o.model, pos)
	case 2:
		var pit simdjson.Iter
		pit, _, err = locateAPI(o.pj, o.model, pos[:len(pos)-1])
		if err == nil {
			err = safely(func() error {
				obj, e := pit.Object(nil)
				if e != nil {
					return e
				}
				els, e = obj.Parse(nil)
				if e != nil {
					return e
				}
				if x := pos[len(pos)-1]; x >= len(els.Elements) {
					return fmt.Errorf("Object.Parse returned %d elements, member #%d missing", len(els.Elements), x)
				}
				return nil
			})
		}
		if err == nil {
			itp = &els.Elements[pos[len(pos)-1]].Iter
			par := getAt(o.model, pos[:len(pos)-1])
			key := par.Keys[pos[len(pos)-1]]
			uniq := 0
			for _, k := range par.Keys {
				if bytes.Equal(k, key) {
					uniq++
				}
			}
			if uniq == 1 && c.Intn("navlookup", 2) == 0 {
				// by name: Lookup hands out the element the Elements hold
				if el := els.Lookup(string(key)); el != nil {
					itp = &el.Iter
				} else {
					err = fmt.Errorf("Elements.Lookup(%q) returned nil for a present key", key)
				}
			}
		}
	}
	if err != nil {
		walkerFail(r, []string{"W-into", "W-adv", "W-aiter"}[nav], fmt.Sprintf("%s: navigating to %v", what, pos), err)
		return
	}
	kind := c.Intn("setkind", 7)
	if len(o.kept) > 0 && c.Intn("usekept", 4) == 0 {
		// through an iterator copy kept from an earlier edit of a number or string (both stay two tape entries wide,
		// and every number/string setter is allowed on either)
		k := o.kept[c.Intn("keptidx", len(o.kept))]
		if m := getAt(o.model, k.pos); m != nil && (m.K == KInt || m.K == KUint || m.K == KFloat || m.K == KString) {
			pos, cur, it, itp, els, nav = k.pos, m, k.it, &it, nil, 3
			kind = 2 + c.Intn("keptkind", 5)
			r.stat("set_through_kept_iterator", 1)
		}
	}
	var nv *MV
	var allowed bool
	var call func() error
	isNumStr := cur.K == KInt || cur.K == KUint || cur.K == KFloat || cur.K == KString
	name := ""
	switch kind {
	case 0:
		name = "SetNull"
		nv, allowed = mvNull(), true
		call = func() error { return itp.SetNull() }
	case 1:
		b := c.Intn("setbool", 2) == 1
		name = fmt.Sprintf("SetBool(%v)", b)
		nv, allowed = mvBool(b), cur.K == KBool || cur.K == KNull
		call = func() error { return itp.SetBool(b) }
	case 2:
		v := setValsInt[c.Intn("setint", len(setValsInt))]
		name = fmt.Sprintf("SetInt(%d)", v)
		nv, allowed = mvInt(v), isNumStr
		call = func() error { return itp.SetInt(v) }
	case 3:
		v := setValsUint[c.Intn("setuint", len(setValsUint))]
		name = fmt.Sprintf("SetUInt(%d)", v)
		nv, allowed = mvUint(v), isNumStr
		call = func() error { return itp.SetUInt(v) }
	case 4:
		var v float64
		if c.Intn("setnonfinite", 12) == 11 {
			v = []float64{math.NaN(), math.Inf(1), math.Inf(-1)}[c.Intn("nf", 3)]
		} else if c.Intn("setbigfloat", 4) == 0 {
			// integer-valued floats between 2^53 and 1e21 with drawn mantissas (shortest-digit printing is delicate there)
			v = math.Float64frombits(uint64(0x433+c.Intn("bfexp", 17))<<52 | c.U64("bfmant")&(1<<52-1))
			if c.Intn("bfneg", 2) == 1 {
				v = -v
			}
		} else {
			v = setValsFloat[c.Intn("setfloat", len(setValsFloat))]
		}
		name = fmt.Sprintf("SetFloat(%v)", v)
		nv, allowed = mvFloat(v), isNumStr
		call = func() error { return itp.SetFloat(v) }
	case 5:
		s := drawSetString(c)
		name = fmt.Sprintf("SetString(%s)", shortBytes(s))
		nv, allowed = mvString(s), isNumStr
		call = func() error { return itp.SetString(string(s)) }
	case 6:
		s := drawSetString(c)
		name = fmt.Sprintf("SetStringBytes(%s)", shortBytes(s))
		nv, allowed = mvString(s), isNumStr
		call = func() error { return itp.SetStringBytes(s) }
	}
	r.trace("%s: %s at %v (%s, nav %d)", what, name, pos, cur.K, nav)
	var serr error
	if e := safely(func() error { serr = call(); return nil }); e != nil {
		walkerFail(r, "set", fmt.Sprintf("%s: %s at %v", what, name, pos), e)
		return
	}
	if allowed {
		if serr != nil {
			r.violate("set", "allowed-rejected", fmt.Sprintf("%s: %s on a %s at %v returned %v", what, name, cur.K, pos, serr))
			return
		}
		if len(pos) == 1 {
			o.model[pos[0]] = nv
		} else {
			setAt(o.model, pos, nv)
		}
		o.edited = true
		r.stat("set_applied", 1)
		// the iterator itself must now read back the new value
		if !nv.isContainer() {
			got, err := scalarOf(itp, itp.Type())
			if err != nil || Diff(nv, got, EqExact) != "" {
				r.violate("set", "iter-stale", fmt.Sprintf("%s: after %s the same iterator reads %v (%v)", what, name, got, err))
			}
		}
		if nav != 2 && !r.failed() && (nv.K == KInt || nv.K == KUint || nv.K == KFloat || nv.K == KString) && c.Intn("keepiter", 3) == 0 {
			o.kept = append(o.kept, keptIter{pos: append(Pos(nil), pos...), it: *itp})
			if len(o.kept) > 4 {
				o.kept = o.kept[1:]
			}
		}
		if els != nil && !r.failed() {
			// the Elements the value was addressed through marshals the object with the new value
			par := getAt(o.model, pos[:len(pos)-1])
			var all []byte
			var merr error
			if e := safely(func() error { all, merr = els.MarshalJSON(); return nil }); e != nil {
				walkerFail(r, "W-marshal", what+": Elements.MarshalJSON after "+name, e)
				return
			}
			if merr != nil {
				if !hasNonFinite([]*MV{par}) {
					r.violate("W-marshal", "inner-error:"+msgClass(merr.Error()), fmt.Sprintf("%s: Elements.MarshalJSON after %s through its own iterator: %v", what, name, merr))
				}
			} else if hasNonFinite([]*MV{par}) {
				r.violate("W-marshal", "nonfinite-emitted", what+": Elements.MarshalJSON emitted a non-finite float: "+string(shortBytes(all)))
			} else {
				checkMarshalText(r, all, []*MV{par}, false, fmt.Sprintf("%s: Elements.MarshalJSON after %s through the Elements' own iterator", what, name))
			}
			r.stat("set_through_elements", 1)
		}
	} else {
		if serr == nil {
			r.violate("set", "disallowed-accepted", fmt.Sprintf("%s: %s on a %s at %v returned nil (the documentation disallows it)", what, name, cur.K, pos))
			return
		}
		r.stat("set_disallowed", 1)
		// a rejected call changes nothing - not even what the same iterator does next
		if !cur.isContainer() {
			got, err := scalarOf(itp, itp.Type())
			if err != nil || Diff(cur, got, EqExact) != "" {
				r.violate("set", "iter-changed-by-rejected-call", fmt.Sprintf("%s: after the rejected %s the same iterator reads %v (%v) instead of %s", what, name, got, err, cur.short()))
				return
			}
		}
		if c.Intn("followup", 2) == 1 {
			// SetNull is allowed on every value type: apply it through the very same iterator
			var nerr error
			if e := safely(func() error { nerr = itp.SetNull(); return nil }); e != nil {
				walkerFail(r, "set", what+": SetNull after a rejected "+name, e)
				return
			}
			if nerr != nil {
				r.violate("set", "allowed-rejected", fmt.Sprintf("%s: SetNull after a rejected %s on a %s returned %v", what, name, cur.K, nerr))
				return
			}
			r.trace("%s: SetNull through the same iterator after the rejected call", what)
			if len(pos) == 1 {
				o.model[pos[0]] = mvNull()
			} else {
				setAt(o.model, pos, mvNull())
			}
			o.edited = true
			r.stat("set_applied", 1)
		}
	}
}

// opDelete runs DeleteElems on a drawn container with a drawn member subset.
func opDelete(r *Run, o *simObj, what string) { opDeleteAt(r, o, what, nil, -1) }

// opDeleteAt is opDelete with the container and the member subset given (forcedMask >= 0).
func opDeleteAt(r *Run, o *simObj, what string, forcedPos Pos, forcedMask int) {
	c := r.C
	o.kept = nil // member positions shift: iterators kept from earlier edits are not used across a deletion
	conts := allContainers(o.model)
	if len(conts) == 0 {
		return
	}
	var pos Pos
	if forcedPos != nil {
		pos = forcedPos
	} else {
		pos = conts[c.Intn("delcont", len(conts))]
	}
	m := getAt(o.model, pos)
	n := len(m.Arr)
	if m.K == KObject {
		n = len(m.Keys)
	}
	var it simdjson.Iter
	var err error
	nav := c.Intn("nav", 2)
	if nav == 0 {
		it, err = locateFlat(o.pj, pos)
	} else {
		it, _, err = locateAPI(o.pj, o.model, pos)
	}
	if err != nil {
		walkerFail(r, []string{"W-into", "W-adv"}[nav], fmt.Sprintf("%s: navigating to container %v", what, pos), err)
		return
	}
	// subset: exhaustive-style mask for small containers, drawn otherwise
	del := make([]bool, n)
	if n > 0 {
		if forcedMask >= 0 {
			for i := range del {
				del[i] = forcedMask>>i&1 == 1
			}
		} else if n <= 6 {
			mask := c.Intn("delmask", 1<<n)
			for i := range del {
				del[i] = mask>>i&1 == 1
			}
		} else {
			style := c.Intn("delstyle", 5)
			for i := range del {
				switch style {
				case 0:
					del[i] = i == 0
				case 1:
					del[i] = i == n-1
				case 2:
					del[i] = true
				case 3:
					del[i] = c.Intn("delbit", 2) == 1
				case 4:
					del[i] = i >= n/3 && i < 2*n/3
				}
			}
		}
	}
	visited := 0
	var cbProblem string
	if m.K == KArray {
		arr, e := it.Array(nil)
		if e != nil {
			walkerFail(r, "delete", what, e)
			return
		}
		r.trace("%s: Array.DeleteElems at %v mask %v", what, pos, del)
		e = safely(func() error {
			arr.DeleteElems(func(ei simdjson.Iter) bool {
				i := visited
				visited++
				if i >= n {
					cbProblem = fmt.Sprintf("callback #%d but the array has %d elements", i, n)
					return false
				}
				if !m.Arr[i].isContainer() {
					got, err := scalarOf(&ei, ei.Type())
					if err != nil || Diff(m.Arr[i], got, EqExact) != "" {
						cbProblem = fmt.Sprintf("callback #%d saw %v (%v), expected %s", i, got, err, m.Arr[i].short())
					}
				} else if (ei.Type() == simdjson.TypeArray) != (m.Arr[i].K == KArray) || (ei.Type() == simdjson.TypeObject) != (m.Arr[i].K == KObject) {
					cbProblem = fmt.Sprintf("callback #%d saw type %v, expected %s", i, ei.Type(), m.Arr[i].K)
				}
				return del[i]
			})
			return nil
		})
		if e != nil {
			walkerFail(r, "delete", what+": Array.DeleteElems", e)
			return
		}
		if cbProblem == "" && visited != n {
			cbProblem = fmt.Sprintf("callbacks visited %d of %d elements", visited, n)
		}
	} else {
		obj, e := it.Object(nil)
		if e != nil {
			walkerFail(r, "delete", what, e)
			return
		}
		// key filter only on objects with unique keys
		unique := true
		seen := map[string]bool{}
		for _, k := range m.Keys {
			if seen[string(k)] {
				unique = false
			}
			seen[string(k)] = true
		}
		mode := c.Intn("delmode", 4) // 0 fn only, 1 fn+onlyKeys, 2 onlyKeys only (fn nil), 3 both nil
		if !unique && (mode == 1 || mode == 2) {
			mode = 0
		}
		var onlyKeys map[string]struct{}
		offered := make([]bool, n) // members offered to fn / eligible
		for i := range offered {
			offered[i] = true
		}
		switch mode {
		case 1:
			onlyKeys = map[string]struct{}{}
			for i := range offered {
				offered[i] = c.Intn("okey", 2) == 1
				if offered[i] {
					onlyKeys[string(m.Keys[i])] = struct{}{}
				}
			}
			if c.Intn("okeyabsent", 3) == 0 {
				onlyKeys["\x00not-present"] = struct{}{}
			}
			if len(onlyKeys) == 0 {
				mode = 0
				onlyKeys = nil
				for i := range offered {
					offered[i] = true
				}
			}
		case 2:
			onlyKeys = map[string]struct{}{}
			for i := range del {
				if del[i] {
					onlyKeys[string(m.Keys[i])] = struct{}{}
				}
			}
			if len(onlyKeys) == 0 {
				// nothing selected: an empty filter would mean "all"; use fn instead
				mode = 0
				onlyKeys = nil
			}
		case 3:
			for i := range del {
				del[i] = true
			}
		}
		for i := range del {
			if !offered[i] {
				del[i] = false
			}
		}
		r.trace("%s: Object.DeleteElems at %v mode %d mask %v", what, pos, mode, del)
		next := 0
		var fn func(key []byte, ei simdjson.Iter) bool
		if mode == 0 || mode == 1 {
			fn = func(key []byte, ei simdjson.Iter) bool {
				for next < n && !offered[next] {
					next++
				}
				i := next
				next++
				visited++
				if i >= n {
					cbProblem = fmt.Sprintf("callback for key %s beyond the %d members", shortBytes(key), n)
					return false
				}
				if !bytes.Equal(key, m.Keys[i]) {
					cbProblem = fmt.Sprintf("callback #%d got key %s, expected %s", i, shortBytes(key), shortBytes(m.Keys[i]))
					return false
				}
				if !m.Vals[i].isContainer() {
					got, err := scalarOf(&ei, ei.Type())
					if err != nil || Diff(m.Vals[i], got, EqExact) != "" {
						cbProblem = fmt.Sprintf("callback for key %s saw %v (%v), expected %s", shortBytes(key), got, err, m.Vals[i].short())
					}
				}
				return del[i]
			}
		}
		var derr error
		filterBefore := make([]string, 0, len(onlyKeys))
		for k := range onlyKeys {
			filterBefore = append(filterBefore, k)
		}
		e = safely(func() error { derr = obj.DeleteElems(fn, onlyKeys); return nil })
		if e == nil && len(onlyKeys) != len(filterBefore) {
			// the key filter belongs to the caller (it is typically reused for the next object / document)
			r.violate("delete", "filter-modified", fmt.Sprintf("%s: Object.DeleteElems changed the caller's key filter from %d to %d keys", what, len(filterBefore), len(onlyKeys)))
			return
		}
		for _, k := range filterBefore {
			if _, ok := onlyKeys[k]; !ok && e == nil {
				r.violate("delete", "filter-modified", fmt.Sprintf("%s: Object.DeleteElems removed key %q from the caller's key filter", what, k))
				return
			}
		}
		if e != nil {
			walkerFail(r, "delete", what+": Object.DeleteElems", e)
			return
		}
		if derr != nil {
			r.violate("delete", "error:"+msgClass(derr.Error()), fmt.Sprintf("%s: Object.DeleteElems at %v returned %v", what, pos, derr))
			return
		}
		if fn != nil && cbProblem == "" {
			want := 0
			for i := range offered {
				if offered[i] {
					want++
				}
			}
			if visited != want {
				cbProblem = fmt.Sprintf("callbacks visited %d members, expected %d", visited, want)
			}
		}
	}
	if cbProblem != "" {
		r.violate("delete", "callbacks", fmt.Sprintf("%s: DeleteElems at %v: %s", what, pos, cbProblem))
		return
	}
	nd := 0
	for _, d := range del {
		if d {
			nd++
		}
	}
	if nd > 0 {
		deleteMembers(m, del)
		o.edited = true
		r.stat("members_deleted", nd)
	}
}

// ---- profiles ---------------------------------------------------------------------------------

func newSerializers(c *Chooser, n int) []*simdjson.Serializer {
	out := make([]*simdjson.Serializer, n)
	for i := range out {
		out[i] = simdjson.NewSerializer()
		out[i].CompressMode(simdjson.CompressMode(c.Intn("cmode", 4)))
	}
	return out
}

// RunHistEdit is the engine of C13 (profile set), C14 (profile delete) and C10 (profile marshal).
func RunHistEdit(r *Run, profile string) {
	c := r.C
	cfg := drawCfg(c, true)
	doc := genHistDoc(r, cfg.ND, c.Intn("bigdoc", 12) == 11)
	hugeOdds := 150
	if r.thorough() {
		hugeOdds = 25
	}
	huge := (profile == "delete" || profile == "set") && c.Intn("hugedoc", hugeOdds) == 0
	if huge {
		// tapes beyond the serializer's 64 KiB tag/value blocks: gaps may straddle a flush boundary
		cfg.ND = false
		doc = GenBulkDoc(c, 150000+c.Intn("hugesz", 250000), []int{FamDenseArrays, FamZeros, FamNumbers, FamStrings, FamWide, FamBigMembers, FamBigMembers, FamBigMembers}).B
		r.stat("huge_tapes", 1)
	}
	r.Res.Inputs["doc"] = b64(doc)
	r.Res.Sample["cfg"] = cfg.String()
	r.Res.Sample["doc"] = string(shortBytes(doc))
	o := parseNew(r, doc, cfg, "parse")
	r.Res.Evals++
	if o == nil || r.failed() {
		return
	}
	sers := newSerializers(c, 1)
	if c.Intn("deserializedsubject", 5) == 0 {
		// the tape being edited came out of Deserialize (equal strings share storage there)
		out, _, err := RoundTrip(sers[0], sers[0], o.pj, nil)
		if err != nil {
			walkerFail(r, "W-ser", "preparing a deserialized subject", err)
			return
		}
		o = &simObj{pj: out, model: o.model, nd: o.nd, copy: true, origin: "deserialized " + o.origin}
		r.Res.Sample["subject"] = "deserialized"
		r.stat("deserialized_subjects", 1)
	}
	if c.Intn("clonedsubject", 8) == 0 {
		// the tape being edited is a clone (its buffers were laid out by Clone, not by the parser)
		var cl *simdjson.ParsedJson
		if err := safely(func() error { cl = o.pj.Clone(nil); return nil }); err != nil {
			walkerFail(r, "clone", "preparing a cloned subject", err)
			return
		}
		o = &simObj{pj: cl, model: o.model, nd: o.nd, copy: true, origin: "clone of " + o.origin}
		r.Res.Sample["subject"] = fmt.Sprint(r.Res.Sample["subject"], " cloned")
		r.stat("cloned_subjects", 1)
	}
	if profile == "delete" && c.Intn("allsubsets", 6) == 0 {
		// every subset of the members of one small container, each on a fresh parse of the same document
		var small []Pos
		for _, p := range allContainers(o.model) {
			m := getAt(o.model, p)
			n := len(m.Arr) + len(m.Keys)
			if n >= 1 && n <= 5 && !(huge && n > 3) {
				small = append(small, p)
			}
		}
		if len(small) > 0 {
			pos := small[c.Intn("subsetcont", len(small))]
			m := getAt(o.model, pos)
			n := len(m.Arr) + len(m.Keys)
			for mask := 0; mask < 1<<n && !r.failed(); mask++ {
				o2 := parseNew(r, doc, cfg, "parse")
				if o2 == nil {
					break
				}
				what := fmt.Sprintf("subset %0*b of container %v", n, mask, pos)
				opDeleteAt(r, o2, what, pos, mask)
				if r.failed() {
					break
				}
				if huge {
					// a full battery over a huge tape costs seconds; the subsets of one container are the subject here
					readBack(r, o2, bInto|bAdv|bSerial, "after deleting "+what, sers)
				} else {
					readBack(r, o2, bAll, "after deleting "+what, sers)
				}
				r.Res.Evals++
			}
			r.Res.Exhaustive = true
			r.Res.NonTrivial = true
			r.Res.Sample["ops"] = fmt.Sprintf("all %d subsets of container %v", 1<<n, pos)
			r.stat("containers_with_every_subset_deleted", 1)
			f := newFP()
			f.bytes(doc)
			r.fp.u64(f.h)
			r.fp.u64(uint64(len(pos)))
			return
		}
	}
	battery := bAll
	switch profile {
	case "marshal":
		battery = bMarshal | bInto
	case "delete":
		battery = bAll
	}
	if huge {
		battery = bInto | bAdv | bSerial
	}
	nops := 1 + c.Intn("nops", 12)
	var ops []string
	for k := 0; k < nops && !r.failed(); k++ {
		what := fmt.Sprintf("op #%d", k)
		var kind int
		switch profile {
		case "set":
			kind = c.Pick("opk", 8, 1)
		case "delete":
			kind = c.Pick("opk", 2, 6)
		default:
			kind = c.Pick("opk", 4, 4)
		}
		if kind == 0 {
			opSet(r, o, what)
			ops = append(ops, "set")
		} else {
			opDelete(r, o, what)
			ops = append(ops, "delete")
		}
		if r.failed() {
			break
		}
		readBack(r, o, battery, fmt.Sprintf("after %s (%s)", what, ops[len(ops)-1]), sers)
		if (profile == "marshal" || profile == "delete") && !r.failed() && !huge {
			// C14 lists MarshalJSON of Iter, Array and Elements among the APIs that must agree after deletions
			checkMarshalInner(r, o, fmt.Sprintf("after %s", what))
		}
		if !r.failed() {
			r.checkHeld() // texts returned earlier in this step are still what they were
		}
	}
	r.Res.Sample["ops"] = ops
	r.Res.NonTrivial = o.edited
	f := newFP()
	f.bytes(doc)
	r.fp.u64(f.h)
	r.fp.u64(digestRoots(o.model))
}
