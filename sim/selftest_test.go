package sim

import (
	"bytes"
	"encoding/json"
	"strings"
	"testing"
)

// The oracle is validated before it judges anything (DESIGN §4): the reference parser must agree with
// encoding/json on validity for generated valid and defective documents, and on content (token stream,
// numbers as literals) for valid ones.

func tokensOf(t *testing.T, b []byte) []string {
	dec := json.NewDecoder(bytes.NewReader(b))
	dec.UseNumber()
	var out []string
	for {
		tok, err := dec.Token()
		if err != nil {
			break
		}
		switch v := tok.(type) {
		case json.Delim:
			out = append(out, string(v))
		case string:
			out = append(out, "s:"+v)
		case json.Number:
			out = append(out, "n:"+v.String())
		case bool:
			if v {
				out = append(out, "true")
			} else {
				out = append(out, "false")
			}
		case nil:
			out = append(out, "null")
		}
	}
	return out
}

func mvTokens(m *MV, out *[]string, lits *[]string) {
	switch m.K {
	case KNull:
		*out = append(*out, "null")
	case KBool:
		if m.B {
			*out = append(*out, "true")
		} else {
			*out = append(*out, "false")
		}
	case KInt, KUint, KFloat:
		*out = append(*out, "n")
	case KString:
		*out = append(*out, "s:"+strings.ToValidUTF8(string(m.S), "�"))
	case KArray:
		*out = append(*out, "[")
		for _, e := range m.Arr {
			mvTokens(e, out, lits)
		}
		*out = append(*out, "]")
	case KObject:
		*out = append(*out, "{")
		for i := range m.Keys {
			*out = append(*out, "s:"+strings.ToValidUTF8(string(m.Keys[i]), "�"))
			mvTokens(m.Vals[i], out, lits)
		}
		*out = append(*out, "}")
	}
}

func TestHarnessSelf(t *testing.T) {
	nValid, nDefect, disagreements := 0, 0, 0
	for seed := uint64(1); seed <= 1500; seed++ {
		c := NewChooser(Mix(seed, 77))
		fam := []int{FamMixed, FamKeyed, FamStrings, FamNumbers, FamWide, FamDenseArrays, FamDenseObjects, FamZeros, FamDeep}[c.Intn("fam", 9)]
		d := GenDoc(c, DocSpec{Family: fam, Target: 10 + c.Intn("sz", 3000), WS: c.Intn("ws", 4), Record: true, MaxDepth: 5, StrMax: 120})
		ref := RefParse(d.B)
		if !ref.OK {
			t.Fatalf("seed %d: generator produced a document the reference parser rejects (%s at %d): %q", seed, ref.Err, ref.ErrOff, shortBytes(d.B))
		}
		if !json.Valid(d.B) {
			t.Fatalf("seed %d: generator produced a document encoding/json rejects: %q", seed, shortBytes(d.B))
		}
		nValid++
		if !ref.Ambiguous {
			var got []string
			mvTokens(ref.Roots[0], &got, nil)
			want := tokensOf(t, d.B)
			if len(got) != len(want) {
				t.Fatalf("seed %d: token count %d vs encoding/json %d", seed, len(got), len(want))
			}
			for i := range got {
				if got[i] == "n" && strings.HasPrefix(want[i], "n:") {
					continue
				}
				if got[i] != want[i] {
					t.Fatalf("seed %d: token %d: reference %q vs encoding/json %q", seed, i, got[i], want[i])
				}
			}
		}
		// defective variants: verdicts must agree (both reject, or both accept when the defect happened to be harmless)
		for k := 0; k < 6; k++ {
			bad := ApplyDefect(c, d, c.Intn("defkind", defCount), c.Intn("defpos", 4))
			r2 := RefParse(bad)
			if r2.Ambiguous {
				continue
			}
			tr := bytes.Trim(bad, " \t\r\n")
			jv := json.Valid(bad) && len(tr) > 0 && (tr[0] == '{' || tr[0] == '[')
			nDefect++
			if r2.OK != jv {
				disagreements++
				t.Errorf("seed %d: reference ok=%v (%s) but encoding/json valid=%v for %q", seed, r2.OK, r2.Err, jv, shortBytes(bad))
			}
		}
	}
	t.Logf("oracle self-test: %d valid documents, %d defective variants, %d disagreements with encoding/json", nValid, nDefect, disagreements)
}
