package sim

import (
	"encoding/binary"
	"hash/fnv"
)

// splitmix64 is the only PRNG of the simulator. One seed, one execution.
type splitmix struct{ s uint64 }

func (r *splitmix) next() uint64 {
	r.s += 0x9e3779b97f4a7c15
	z := r.s
	z = (z ^ (z >> 30)) * 0xbf58476d1ce4e5b9
	z = (z ^ (z >> 27)) * 0x94d049bb133111eb
	return z ^ (z >> 31)
}

// Mix derives a sub-seed from a seed and a list of integers.
func Mix(seed uint64, xs ...uint64) uint64 {
	r := splitmix{seed}
	v := r.next()
	for _, x := range xs {
		r.s = v ^ (x * 0x9e3779b97f4a7c15)
		v = r.next()
	}
	return v
}

// Draw is one recorded choice.
type Draw struct {
	L string `json:"l"` // static label (call site)
	N int    `json:"n"` // bound
	V int    `json:"v"` // value in [0,n)
}

// Chooser is the choice tape: the single source of every decision of a run.
// In generate mode it draws from the PRNG and records; in replay mode it
// reads a recorded tape (value mod bound; exhausted tape yields 0).
type Chooser struct {
	rng      splitmix
	Tape     []Draw
	replay   []int
	pos      int
	Replay   bool
	MaxDraws int // safety bound; exceeding it panics with errTapeOverrun
}

type tapeOverrun struct{}

// NewChooser returns a generating chooser.
func NewChooser(seed uint64) *Chooser {
	return &Chooser{rng: splitmix{seed}, MaxDraws: 50_000_000}
}

// NewReplay returns a chooser replaying vals.
func NewReplay(vals []int) *Chooser {
	return &Chooser{replay: vals, Replay: true, MaxDraws: 50_000_000}
}

// Values returns the values drawn so far (a tape for NewReplay).
func (c *Chooser) Values() []int {
	out := make([]int, len(c.Tape))
	for i, d := range c.Tape {
		out[i] = d.V
	}
	return out
}

// Intn draws a value in [0,n). n <= 1 yields 0 without consuming the PRNG but is still recorded.
func (c *Chooser) Intn(label string, n int) int {
	if n < 1 {
		n = 1
	}
	if len(c.Tape) >= c.MaxDraws {
		panic(tapeOverrun{})
	}
	var v int
	if c.Replay {
		if c.pos < len(c.replay) {
			v = c.replay[c.pos]
			if v < 0 {
				v = -v
			}
			v %= n
		}
		c.pos++
	} else if n > 1 {
		v = int(c.rng.next() % uint64(n))
	}
	c.Tape = append(c.Tape, Draw{label, n, v})
	return v
}

// Bool is true with probability num/den. Value 0 (the simplest) means false.
func (c *Chooser) Bool(label string, num, den int) bool {
	return c.Intn(label, den) >= den-num
}

// Pick draws an index with the given weights. Index 0 is the simplest.
func (c *Chooser) Pick(label string, weights ...int) int {
	tot := 0
	for _, w := range weights {
		tot += w
	}
	v := c.Intn(label, tot)
	for i, w := range weights {
		if v < w {
			return i
		}
		v -= w
	}
	return len(weights) - 1
}

// Range draws in [lo,hi].
func (c *Chooser) Range(label string, lo, hi int) int {
	if hi < lo {
		hi = lo
	}
	return lo + c.Intn(label, hi-lo+1)
}

// U64 draws 64 random bits (recorded as four 16-bit draws so that a tape stays JSON-friendly).
func (c *Chooser) U64(label string) uint64 {
	var v uint64
	for i := 0; i < 4; i++ {
		v = v<<16 | uint64(c.Intn(label, 1<<16))
	}
	return v
}

// fnv64 helpers used for fingerprints.
type fp struct{ h uint64 }

func newFP() fp { return fp{14695981039346656037} }
func (f *fp) u64(v uint64) {
	for i := 0; i < 8; i++ {
		f.h ^= v & 0xff
		f.h *= 1099511628211
		v >>= 8
	}
}
func (f *fp) str(s string) {
	for i := 0; i < len(s); i++ {
		f.h ^= uint64(s[i])
		f.h *= 1099511628211
	}
	f.h ^= 0xff
	f.h *= 1099511628211
}
func (f *fp) bytes(b []byte) {
	for _, c := range b {
		f.h ^= uint64(c)
		f.h *= 1099511628211
	}
	f.h ^= 0xfe
	f.h *= 1099511628211
}

func hashBytes(b []byte) uint64 {
	h := fnv.New64a()
	h.Write(b)
	return h.Sum64()
}

func hashU64s(v []uint64) uint64 {
	h := fnv.New64a()
	var tmp [8]byte
	for _, x := range v {
		binary.LittleEndian.PutUint64(tmp[:], x)
		h.Write(tmp[:])
	}
	return h.Sum64()
}
