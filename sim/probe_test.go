package sim

import (
	"os"
	"strconv"
	"testing"

	simdjson "github.com/minio/simdjson-go"
)

// TestGrammarProbe is not a registered check (accept/reject over all inputs is C01, which this technique does not claim):
// an exploratory sweep of the defect generator against Parse/ParseND, used to see whether the claimed checks' outcome
// oracles (C07, C15) have anything left to find in the grammar's neighbourhood. VERIF_PROBE_N documents (default 0: skipped).
func TestGrammarProbe(t *testing.T) {
	n, _ := strconv.Atoi(os.Getenv("VERIF_PROBE_N"))
	if n == 0 {
		t.Skip("VERIF_PROBE_N not set")
	}
	base, _ := strconv.ParseUint(os.Getenv("VERIF_SEED"), 10, 64)
	bad := 0
	for seed := uint64(1); seed <= uint64(n); seed++ {
		c := NewChooser(Mix(seed+base, 4711))
		fam := []int{FamMixed, FamKeyed, FamStrings, FamNumbers, FamWide, FamMixed, FamAtoms, FamDeep}[c.Intn("fam", 8)]
		d := GenDoc(c, DocSpec{Family: fam, Target: 4 + c.Intn("sz", 600), WS: c.Intn("ws", 4), Record: true, MaxDepth: 5, StrMax: 80})
		for k := 0; k < 24; k++ {
			doc := ApplyDefect(c, d, c.Intn("defkind", defCount), c.Intn("defpos", 4))
			nd := c.Intn("nd", 3) == 0
			ref := refFor(doc, nd)
			if ref.Ambiguous {
				continue
			}
			var err error
			in := append([]byte(nil), doc...)
			if nd {
				_, err = simdjson.ParseND(in, nil)
			} else {
				_, err = simdjson.Parse(in, nil)
			}
			if (err == nil) != ref.OK {
				bad++
				if bad <= 12 {
					t.Errorf("nd=%v library ok=%v (%v), reference ok=%v (%s): %q", nd, err == nil, err, ref.OK, ref.Err, shortBytes(doc))
				}
			}
		}
	}
	t.Logf("grammar probe: %d documents x 24 defective variants, %d disagreements", n, bad)
}
