package sim

import (
	"encoding/base64"
	"encoding/binary"
	"errors"
	"fmt"
	"runtime/debug"
	"syscall"
	"testing"
	"time"
	"unsafe"

	simdjson "github.com/minio/simdjson-go"
)

// E4 "fault": fault enumeration on stored artefacts. No scheduler; the search space is the fault.

// ---- guard-page allocator ------------------------------------------------------------------------

type guardBuf struct {
	mem  []byte // whole mapping: [guard page][data pages][guard page]
	data []byte
}

const pageSize = 4096

var guardPool = map[int]*guardBuf{}

// guardPoolStr holds the mappings used for string buffers handed to the parser through a reused object (a second
// set, so that input and string buffer of one call never share pages).
var guardPoolStr = map[int]*guardBuf{}

// inStrGuard reports whether addr lies in one of the string-buffer mappings (guard pages included).
func inStrGuard(addr uintptr) bool {
	for _, g := range guardPoolStr {
		if lo := uintptr(unsafe.Pointer(&g.mem[0])); addr >= lo && addr < lo+uintptr(len(g.mem)) {
			return true
		}
	}
	return false
}

// guardAllocStr is guardAlloc for string buffers.
func guardAllocStr(n int) *guardBuf {
	saved := guardPool
	guardPool = guardPoolStr
	defer func() { guardPool = saved }()
	return guardAlloc(n)
}

// guardAlloc returns a mapping with n usable bytes (rounded up to pages) between two PROT_NONE pages.
func guardAlloc(n int) *guardBuf {
	pages := (n + pageSize - 1) / pageSize
	if pages == 0 {
		pages = 1
	}
	if g := guardPool[pages]; g != nil {
		return g
	}
	mem, err := syscall.Mmap(-1, 0, (pages+2)*pageSize, syscall.PROT_READ|syscall.PROT_WRITE, syscall.MAP_ANON|syscall.MAP_PRIVATE)
	if err != nil {
		return nil
	}
	if syscall.Mprotect(mem[:pageSize], syscall.PROT_NONE) != nil || syscall.Mprotect(mem[(pages+1)*pageSize:], syscall.PROT_NONE) != nil {
		return nil
	}
	g := &guardBuf{mem: mem, data: mem[pageSize : (pages+1)*pageSize]}
	guardPool[pages] = g
	return g
}

// place copies b flush against the trailing guard page (atEnd) or the leading one.
func (g *guardBuf) place(b []byte, atEnd bool) []byte {
	if atEnd {
		dst := g.data[len(g.data)-len(b):]
		copy(dst, b)
		return dst[:len(b):len(b)]
	}
	copy(g.data, b)
	return g.data[:len(b):len(b)]
}

// ---- traversal battery for results of faulted inputs: only crash / non-termination matter -------------

// traverseAll runs every read API over pj; errors are fine, panics and step-cap overruns are violations.
func traverseAll(r *Run, pj *simdjson.ParsedJson, what string) bool {
	crossReadStride = 8
	defer func() { crossReadStride = 1 }()
	check := func(name string, err error) bool {
		if err == nil {
			return true
		}
		var wp *WalkPanic
		if errors.As(err, &wp) {
			r.violate("traverse-panic", name+":"+panicSig(wp), fmt.Sprintf("%s: %s panicked: %v", what, name, wp))
			return false
		}
		if errors.Is(err, errStepCap) {
			r.violate("traverse-hang", name, fmt.Sprintf("%s: %s did not terminate within its step cap", what, name))
			return false
		}
		return true
	}
	_, err := WalkInto(pj)
	if !check("AdvanceInto-walk", err) {
		return false
	}
	_, err = WalkAdvance(pj)
	if !check("Advance-walk", err) {
		return false
	}
	_, err = WalkAdvanceIter(pj)
	if !check("AdvanceIter-walk", err) {
		return false
	}
	_, err = WalkForEach(pj)
	if !check("ForEach-walk", err) {
		return false
	}
	_, err = WalkInterface(pj)
	if !check("Interface", err) {
		return false
	}
	_, err = MarshalRoot(pj)
	if !check("MarshalJSON", err) {
		return false
	}
	if !check("lookup-walk", WalkFindBlind(pj)) {
		return false
	}
	// ParsedJson.ForEach, and under each root AdvanceIter until it says there is no more (not only the first value)
	err = safely(func() error {
		steps := 0
		return pj.ForEach(func(i simdjson.Iter) error {
			var elem simdjson.Iter
			for {
				if steps++; steps > 4*len(pj.Tape)+64 {
					return errStepCap
				}
				typ, err := i.AdvanceIter(&elem)
				if err != nil || typ == simdjson.TypeNone {
					return nil
				}
				elem.StringCvt()
				elem.Interface()
				// every typed accessor on whatever the iterator stands on (most of them are conversions or errors);
				// on big tapes for every 16th value
				if len(pj.Tape) > 512 && steps%8 != 0 {
					continue
				}
				elem.Float()
				elem.FloatFlags()
				elem.Int()
				elem.Uint()
				elem.Bool()
				elem.String()
				elem.StringBytes()
			}
		})
	})
	if !check("ForEach-AdvanceIter", err) {
		return false
	}
	err = safely(func() error {
		it := pj.Iter()
		var el simdjson.Element
		it.FindElement(&el, "a", "b")
		it.FindElement(&el, "zz-absent")
		it.Advance()
		it.FindElement(&el, "a")
		if _, root, e := it.Root(nil); e == nil && root != nil {
			if obj, e := root.Object(nil); e == nil {
				obj.FindKey("a", nil)
				obj.FindKey("", nil)
				obj.FindPath(nil, "a", "b", "c")
				obj.Map(nil)
				if els, e := obj.Parse(nil); e == nil {
					els.MarshalJSON()
					els.Lookup("a")
					els.MarshalJSON()
					for i := range els.Elements {
						if i < 16 {
							els.Elements[i].Iter.Interface()
						}
					}
				}
				obj.ForEach(func(key []byte, i simdjson.Iter) { i.Interface() }, map[string]struct{}{"a": {}})
			}
			if arr, e := root.Array(nil); e == nil {
				arr.FirstType()
				arr.MarshalJSON()
				a2 := *arr
				a2.AsFloat()
				a2 = *arr
				a2.AsInteger()
				a2 = *arr
				a2.AsUint64()
				a2 = *arr
				a2.AsString()
				a2 = *arr
				a2.AsStringCvt()
				arr.Interface()
				// the bulk accessors consume the Array: call them one after the other on the same value, too
				a3 := *arr
				a3.AsFloat()
				a3.AsString()
				a3.AsInteger()
				a3.AsStringCvt()
				a3.AsUint64()
				a3.Interface()
				a3.MarshalJSON()
				a3.FirstType()
				a4 := *arr
				a4.AsUint64()
				a4.AsStringCvt()
				a4.ForEach(func(i simdjson.Iter) { i.Interface() })
				a4.DeleteElems(func(i simdjson.Iter) bool { return false })
			}
		}
		return nil
	})
	return check("lookup-and-bulk-accessors", err)
}

// ---- C19: blob faults -------------------------------------------------------------------------------

var subAlphabet = []byte{'{', '}', '[', ']', '"', 'l', 'u', 'd', 'e', 'n', 't', 'f', 'r', 'N', 0, 1, 2, 3, 0x7f, 0x80, 0xff, 0xfe}

type blobCase struct {
	r        *Run
	ser      *simdjson.Serializer
	dst      *simdjson.ParsedJson
	seen     map[uint64]bool
	nontriv  int
	skipped  int
	accepted int
	rejected int
	travWork int      // tape words traversed so far in this run (bounds the harness's own work, see try)
	preTape  []uint64 // content of a reused destination just before the current call (its whole capacity) ...
	preLens  [3]int   // ... with the lengths of Tape, Strings.B and Message
	preStr   []byte
	preMsg   []byte
	preOK    bool
	base     []byte   // the unmodified blob of this run (the first one the destination received)
	recent   [][]byte // the last blobs tried before the current one: a reused destination carries their residue
}

// record stores the literal inputs a replay needs: blob bytes cannot be regenerated in another process (they depend on
// the process-random string hash seed), and with a reused destination the outcome also depends on what that
// destination received before.
func (bc *blobCase) record(blob []byte) {
	in := bc.r.Res.Inputs
	in["blob"] = base64.StdEncoding.EncodeToString(blob)
	if bc.dst == nil {
		return
	}
	if bc.preOK {
		// the exact content of the destination before the call: residue of any number of earlier blobs
		tb := make([]byte, 8*len(bc.preTape))
		for i, w := range bc.preTape {
			binary.LittleEndian.PutUint64(tb[8*i:], w)
		}
		in["dst_tape"] = base64.StdEncoding.EncodeToString(tb)
		in["dst_strings"] = base64.StdEncoding.EncodeToString(bc.preStr)
		in["dst_message"] = base64.StdEncoding.EncodeToString(bc.preMsg)
		in["dst_lens"] = fmt.Sprintf("%d,%d,%d", bc.preLens[0], bc.preLens[1], bc.preLens[2])
	}
	if bc.base != nil {
		in["baseblob"] = base64.StdEncoding.EncodeToString(bc.base)
	}
	for i, p := range bc.recent {
		in[fmt.Sprintf("prev%d", i)] = base64.StdEncoding.EncodeToString(p)
	}
}

// try feeds one mutated blob to Deserialize (fresh or reused destination) and traverses any result.
func (bc *blobCase) try(blob []byte, kind string) bool {
	r := bc.r
	if declaredTooBig(blob) {
		bc.skipped++
		return true
	}
	h := hashBytes(blob)
	if bc.seen[h] {
		return true
	}
	bc.seen[h] = true
	r.Res.Evals++
	r.stat("fault_"+kind, 1)
	if len(blob) >= 3 && blob[0] <= 3 {
		bc.nontriv++
	}
	in := append([]byte(nil), blob...)
	bc.preOK = false
	if d := bc.dst; d != nil && cap(d.Tape) <= 8192 && cap(d.Message) <= 1<<16 && (d.Strings == nil || cap(d.Strings.B) <= 1<<16) {
		bc.preTape = append(bc.preTape[:0], d.Tape[:cap(d.Tape)]...)
		bc.preMsg = append(bc.preMsg[:0], d.Message[:cap(d.Message)]...)
		bc.preStr = bc.preStr[:0]
		bc.preLens = [3]int{len(d.Tape), -1, len(d.Message)}
		if d.Strings != nil {
			bc.preStr = append(bc.preStr, d.Strings.B[:cap(d.Strings.B)]...)
			bc.preLens[1] = len(d.Strings.B)
		}
		bc.preOK = true
	}
	var out *simdjson.ParsedJson
	var derr error
	var err error
	// Deserialize waits for its own decompression goroutines: a call that never returns must not hang the
	// worker. A real-clock allowance only *triggers* the deterministic check (the same blob inside a bubble,
	// where a call blocked for good is a simulator-visible deadlock); it is never the verdict itself.
	doneCh := make(chan struct{})
	go func() {
		defer close(doneCh)
		err = safely(func() error {
			out, derr = bc.ser.Deserialize(in, bc.dst)
			return nil
		})
	}()
	select {
	case <-doneCh:
	case <-time.After(20 * time.Second):
		if deserializeDeadlocks(r, blob) {
			r.violate("deserialize-hang", "deadlock", fmt.Sprintf("Deserialize never returns on a %s blob (%d bytes): every goroutine of the call is blocked for good", kind, len(blob)))
			bc.record(blob)
			return false
		}
		<-doneCh // slow, not stuck
	}
	if err != nil {
		var wp *WalkPanic
		if errors.As(err, &wp) {
			r.violate("deserialize-panic", panicSig(wp), fmt.Sprintf("Deserialize panicked on a %s blob (%d bytes, dst reused %v): %v", kind, len(blob), bc.dst != nil, wp))
			bc.record(blob)
			return false
		}
	}
	remember := func() {
		if bc.dst != nil {
			bc.recent = append(bc.recent, append([]byte(nil), blob...))
			if len(bc.recent) > 3 {
				bc.recent = bc.recent[1:]
			}
		}
	}
	if derr != nil || out == nil {
		bc.rejected++
		remember()
		return true
	}
	bc.accepted++
	// the harness's own work per run is bounded: a plan that makes thousands of faults on a blob whose tape has thousands
	// of words would traverse tens of millions of words (minutes, and the shrinker re-executes runs); past 8 million words
	// every eighth accepted result is traversed, past 32 million none (Deserialize itself is still judged on every blob)
	bc.travWork += len(out.Tape)
	if bc.travWork > 32<<20 || bc.travWork > 8<<20 && bc.accepted%8 != 0 {
		r.stat("accepted_results_not_traversed_work_bound", 1)
		remember()
		return true
	}
	if !traverseAll(r, out, fmt.Sprintf("result of Deserialize on a %s blob (%d bytes, dst reused %v)", kind, len(blob), bc.dst != nil)) {
		bc.record(blob)
		return false
	}
	remember()
	return true
}

func putUvarint(v uint64) []byte {
	var tmp [binary.MaxVarintLen64]byte
	n := binary.PutUvarint(tmp[:], v)
	return append([]byte(nil), tmp[:n]...)
}

func splice(b []byte, off, n int, repl []byte) []byte {
	out := make([]byte, 0, len(b)-n+len(repl))
	out = append(out, b[:off]...)
	out = append(out, repl...)
	return append(out, b[off+n:]...)
}

// deserializeDeadlocks runs Deserialize(blob) inside a bubble and reports whether it blocks for good.
func deserializeDeadlocks(r *Run, blob []byte) bool {
	stuck := false
	runBubble(r.T, func(t *testing.T) {
		s := simdjson.NewSerializer()
		done := false
		go func() {
			defer func() { recover(); done = true }()
			s.Deserialize(append([]byte(nil), blob...), nil)
		}()
		syncWait()
		if !done {
			// nothing else can run: give timers a chance, then judge
			time.Sleep(time.Second)
			syncWait()
		}
		stuck = !done
	})
	return stuck
}

// RunFaultBlob is one run of C19: one base tape, serialized, and a batch of faults on the blob.
func RunFaultBlob(r *Run) {
	c := r.C
	debug.SetPanicOnFault(true)
	// base tape: small documents of every tag kind, NDJSON, edited (NOP runs), overflow floats
	o := makeEditedObj(r, "base", c.Intn("bigbase", 10) == 9)
	if o == nil || r.failed() {
		// makeEditedObj's own oracles are not C19's business
		r.Res.Violations = nil
		r.otherFailed = false
		r.Res.Evals++
		return
	}
	mode := c.Intn("cmode", 4)
	ser := simdjson.NewSerializer()
	ser.CompressMode(simdjson.CompressMode(mode))
	var base []byte
	if err := safely(func() error { base = ser.Serialize(nil, *o.pj); return nil }); err != nil {
		r.Res.Evals++
		return
	}
	base = append([]byte(nil), base...)
	r.Res.Sample["base"] = fmt.Sprintf("mode=%d tape=%d words blob=%d bytes nd=%v edited=%v", mode, len(o.pj.Tape), len(base), o.nd, o.edited)
	// blob bytes depend on the process-random string hash seed: never part of a fingerprint
	r.fp.u64(digestRoots(o.model))
	r.fp.u64(uint64(mode))
	bc := &blobCase{r: r, ser: simdjson.NewSerializer(), seen: map[uint64]bool{}}
	bc.ser.CompressMode(simdjson.CompressMode(c.Intn("rmode", 4)))
	if c.Intn("dstreuse", 3) == 0 {
		// a destination with stale content from an earlier, different tape
		if d2 := makeEditedObj(r, "stale", false); d2 != nil {
			bc.dst = d2.pj
		}
		r.Res.Violations = nil
		r.otherFailed = false
	}
	defer func() {
		r.Res.Distinct = bc.nontriv
		r.Res.NonTrivial = bc.nontriv > 0
		r.stat("skipped_declared_too_big", bc.skipped)
		r.stat("accepted_results_traversed", bc.accepted)
		r.stat("rejected_with_error", bc.rejected)
	}()
	if lit, ok := replayInputs["blob"]; ok {
		// replay files carry the literal mutated blob (its bytes cannot be regenerated in another process) and, for a
		// reused destination, the literal blobs that destination received before it
		if raw, err := base64.StdEncoding.DecodeString(lit); err == nil {
			if tb64, ok := replayInputs["dst_tape"]; ok {
				// the destination exactly as it was before the failing call
				tb, _ := base64.StdEncoding.DecodeString(tb64)
				sb, _ := base64.StdEncoding.DecodeString(replayInputs["dst_strings"])
				mb, _ := base64.StdEncoding.DecodeString(replayInputs["dst_message"])
				var l0, l1, l2 int
				fmt.Sscanf(replayInputs["dst_lens"], "%d,%d,%d", &l0, &l1, &l2)
				tape := make([]uint64, len(tb)/8)
				for i := range tape {
					tape[i] = binary.LittleEndian.Uint64(tb[8*i:])
				}
				if l0 <= len(tape) && l1 <= len(sb) && l2 <= len(mb) {
					d := &simdjson.ParsedJson{Tape: tape[:l0], Message: mb[:l2]}
					if l1 >= 0 {
						d.Strings = &simdjson.TStrings{B: sb[:l1]}
					}
					bc.dst = d
					bc.try(raw, "replayed-literal")
					return
				}
			}
			for _, k := range []string{"baseblob", "prev0", "prev1", "prev2"} {
				if p, ok := replayInputs[k]; ok && bc.dst != nil {
					if pr, err := base64.StdEncoding.DecodeString(p); err == nil {
						if !bc.try(pr, "replayed-predecessor") {
							return
						}
					}
				}
			}
			bc.try(raw, "replayed-literal")
			return
		}
	}
	bc.base = base
	if !bc.try(base, "unmodified") {
		return
	}
	small := len(base) <= 600
	plan := c.Pick("plan", 3, 3, 3, 4, 2, 2, 2, 3)
	r.Res.Sample["plan"] = []string{"truncations", "bit-flips", "substitutions", "framing-aware", "splice", "random", "double", "synthetic-tag-streams"}[plan]
	switch plan {
	case 0: // every truncation length
		for n := 0; n < len(base); n++ {
			if !small && n > 64 && n < len(base)-64 && c.Intn("truncskip", 8) != 0 {
				continue
			}
			if !bc.try(base[:n], "truncation") {
				return
			}
		}
		r.Res.Exhaustive = small
	case 1: // every single-bit flip
		for i := 0; i < len(base); i++ {
			if !small && c.Intn("flipskip", len(base)/400+1) != 0 {
				continue
			}
			for bit := 0; bit < 8; bit++ {
				m := append([]byte(nil), base...)
				m[i] ^= 1 << bit
				if !bc.try(m, "bit-flip") {
					return
				}
			}
		}
		r.Res.Exhaustive = small
	case 2: // byte substitution from the tag / varint alphabet at every offset
		for i := 0; i < len(base); i++ {
			if !small && c.Intn("subskip", len(base)/300+1) != 0 {
				continue
			}
			for _, s := range subAlphabet {
				if base[i] == s {
					continue
				}
				m := append([]byte(nil), base...)
				m[i] = s
				if !bc.try(m, "substitution") {
					return
				}
			}
		}
		r.Res.Exhaustive = small
	case 3: // framing-aware edits: framing stays intact, content changes
		rs, err := explode(base)
		if err != nil {
			r.Res.Harness = "framing walker cannot read an unmodified blob: " + err.Error()
			return
		}
		tags, vals := rs.raw[2], rs.raw[3]
		rebuild := func(kind string) bool {
			m, err := rs.assemble()
			if err != nil {
				return true
			}
			return bc.try(m, kind)
		}
		// tag substitutions (every position for small tapes)
		for i := range tags {
			if len(tags) > 200 && c.Intn("tagskip", len(tags)/100+1) != 0 {
				continue
			}
			old := tags[i]
			for _, s := range []byte{'{', '}', '[', ']', '"', 'l', 'u', 'd', 'e', 'n', 't', 'f', 'r', 'N', 0, 'x'} {
				if s == old {
					continue
				}
				tags[i] = s
				if !rebuild("tag-edit") {
					return
				}
			}
			tags[i] = old
		}
		// tag deletions / duplications
		for k := 0; k < 24 && len(tags) > 0; k++ {
			i := c.Intn("tagpos", len(tags))
			save := append([]byte(nil), tags...)
			if c.Intn("tagdeldup", 2) == 0 {
				rs.raw[2] = append(append([]byte(nil), tags[:i]...), tags[i+1:]...)
			} else {
				rs.raw[2] = append(append(append([]byte(nil), tags[:i+1]...), tags[i]), tags[i+1:]...)
			}
			if c.Intn("fixdecl", 2) == 0 {
				rs.declared[2] = uint64(len(rs.raw[2]))
			}
			ok := rebuild("tag-count-edit")
			rs.raw[2] = save
			tags = rs.raw[2]
			rs.declared[2] = uint64(len(save))
			if !ok {
				return
			}
		}
		// value words
		for w := 0; w+8 <= len(vals); w += 8 {
			if len(vals) > 400 && c.Intn("valskip", len(vals)/200+1) != 0 {
				continue
			}
			old := binary.LittleEndian.Uint64(vals[w:])
			for _, nv := range []uint64{0, 1, old + 1, old - 1, ^uint64(0), 1 << 63, uint64(len(o.pj.Tape)), uint64(len(o.pj.Tape)) + 1, old ^ (1 << 55), old << 8, uint64(-int64(w / 8))} {
				if nv == old {
					continue
				}
				binary.LittleEndian.PutUint64(vals[w:], nv)
				if !rebuild("value-edit") {
					return
				}
			}
			binary.LittleEndian.PutUint64(vals[w:], old)
		}
		// declared sizes and block types
		for i := 0; i < 4; i++ {
			old := rs.declared[i]
			for _, nv := range []uint64{0, old + 1, old - 1, old * 2, old + 8, old + 16} {
				if nv == old || nv > allocCap {
					continue
				}
				rs.declared[i] = nv
				if !rebuild("declared-size-edit") {
					return
				}
			}
			rs.declared[i] = old
		}
		for _, nv := range []uint64{0, 1, rs.tapeSize - 1, rs.tapeSize + 1, rs.tapeSize + 2, rs.tapeSize * 2} {
			old := rs.tapeSize
			if nv > allocCap/8 {
				continue
			}
			rs.tapeSize = nv
			ok := rebuild("tape-size-edit")
			rs.tapeSize = old
			if !ok {
				return
			}
		}
		// block type bytes in place (payload no longer matches its codec)
		if f, err := parseFraming(base); err == nil {
			for i := 0; i < 4; i++ {
				if f.sec[i].typeOff < 0 {
					continue
				}
				for _, nt := range []byte{0, 1, 2, 3, 0xff} {
					if nt == f.sec[i].typ {
						continue
					}
					m := append([]byte(nil), base...)
					m[f.sec[i].typeOff] = nt
					if !bc.try(m, "block-type-edit") {
						return
					}
				}
			}
			// varints in place
			for _, vo := range [][2]int{{f.compSizeOff, f.compSizeLen}, {f.tapeSizeOff, f.tapeSizeLen},
				{f.sec[1].rawSizeOff, f.sec[1].rawSizeLen}, {f.sec[1].blkSizeOff, f.sec[1].blkSizeLen},
				{f.sec[2].rawSizeOff, f.sec[2].rawSizeLen}, {f.sec[2].blkSizeOff, f.sec[2].blkSizeLen},
				{f.sec[3].rawSizeOff, f.sec[3].rawSizeLen}, {f.sec[3].blkSizeOff, f.sec[3].blkSizeLen}} {
				old, _ := binary.Uvarint(base[vo[0]:])
				for _, nv := range []uint64{0, 1, old - 1, old + 1, old + 7, old * 2, 127, 128, 16383, 16384, 1 << 31, 1 << 32, 1 << 62, 1 << 63, 1<<63 + 12345, ^uint64(0), ^uint64(0) - 1} {
					if nv == old {
						continue
					}
					if !bc.try(splice(base, vo[0], vo[1], putUvarint(nv)), "varint-edit") {
						return
					}
				}
			}
		}
	case 4: // splices of two blobs at section boundaries
		o2 := makeEditedObj(r, "other", false)
		r.Res.Violations = nil
		r.otherFailed = false
		if o2 == nil {
			return
		}
		s2 := simdjson.NewSerializer()
		s2.CompressMode(simdjson.CompressMode(c.Intn("cmode2", 4)))
		var other []byte
		if safely(func() error { other = s2.Serialize(nil, *o2.pj); return nil }) != nil {
			return
		}
		a, errA := explode(base)
		b, errB := explode(other)
		if errA != nil || errB != nil {
			return
		}
		for mask := 1; mask < 32; mask++ {
			m := *a
			for i := 0; i < 4; i++ {
				if mask>>i&1 == 1 {
					m.raw[i], m.typ[i], m.declared[i], m.empty[i] = b.raw[i], b.typ[i], b.declared[i], b.empty[i]
				}
			}
			if mask>>4&1 == 1 {
				m.tapeSize = b.tapeSize
			}
			out, err := m.assemble()
			if err != nil {
				continue
			}
			if !bc.try(out, "splice") {
				return
			}
		}
		// byte-level splices
		for k := 0; k < 40; k++ {
			i := c.Intn("spa", len(base)+1)
			j := c.Intn("spb", len(other)+1)
			if !bc.try(append(append([]byte(nil), base[:i]...), other[j:]...), "splice") {
				return
			}
		}
	case 5: // random byte strings, with and without a plausible header
		for k := 0; k < 300; k++ {
			n := c.Intn("rndlen", 200)
			m := make([]byte, n)
			rng := splitmix{c.U64("rndseed")}
			for i := range m {
				m[i] = byte(rng.next())
			}
			if n > 4 && k%2 == 0 {
				m[0] = byte(1 + k%3)
				copy(m[1:], putUvarint(uint64(n-2)))
			}
			if !bc.try(m, "random") {
				return
			}
		}
	case 7: // synthetic tag streams inside intact framing: exercises the tape rebuild state machine directly
		rs, err := explode(base)
		if err != nil {
			r.Res.Harness = "framing walker cannot read an unmodified blob: " + err.Error()
			return
		}
		alphabet := []byte{'r', '{', '}', '[', ']', '"', 'l', 'u', 'd', 'e', 'n', 't', 'f', 'N', 'N', 'N', 0}
		for k := 0; k < 600; k++ {
			n := 1 + c.Intn("synlen", 10)
			tags := make([]byte, n)
			slots := 0
			var vals []byte
			for i := range tags {
				t := alphabet[c.Intn("syntag", len(alphabet))]
				tags[i] = t
				word := func() {
					v := []uint64{0, 1, 2, 3, uint64(n), uint64(slots + 1), uint64(slots + 2), ^uint64(0), uint64(-int64(slots)), 1 << 55, 1<<55 | 1, 1<<55 | 5, ^uint64(0) - 3}[c.Intn("synval", 13)]
					vals = binary.LittleEndian.AppendUint64(vals, v)
				}
				switch t {
				case 'e':
					// a float with its flags travels as two raw tape words: whatever tag byte they carry lands on the tape
					for w := 0; w < 2; w++ {
						if c.Intn("synrawtag", 4) != 0 {
							tg := alphabet[c.Intn("synrawtagv", len(alphabet))]
							pv := []uint64{0, 1, 2, 3, uint64(slots + 1), uint64(slots + 3), 1<<56 - 1}[c.Intn("synrawval", 7)]
							vals = binary.LittleEndian.AppendUint64(vals, uint64(tg)<<56|pv)
						} else {
							word()
						}
					}
					slots += 2
				case '"':
					word()
					word()
					slots += 2
				case 'l', 'u', 'd':
					word()
					slots += 2
				case 'r', '{', '[':
					word()
					slots++
				default:
					slots++
				}
			}
			if c.Intn("synshortvals", 8) == 0 && len(vals) >= 8 {
				vals = vals[:len(vals)-8]
			}
			m := *rs
			m.raw[2], m.declared[2] = tags, uint64(len(tags))
			m.raw[3], m.declared[3] = vals, uint64(len(vals))
			if len(vals) == 0 {
				m.empty[3] = true
			} else {
				m.empty[3] = false
				if m.typ[3] == 0 && rs.empty[3] {
					m.typ[3] = 0
				}
			}
			d := []int{0, 0, 0, -1, 1, -2, 2}[c.Intn("syndelta", 7)]
			if slots+d < 0 {
				d = 0
			}
			m.tapeSize = uint64(slots + d)
			out, err := m.assemble()
			if err != nil {
				continue
			}
			if !bc.try(out, "synthetic-tags") {
				return
			}
		}
	case 6: // double faults
		for k := 0; k < 1500; k++ {
			m := append([]byte(nil), base...)
			for f := 0; f < 2; f++ {
				i := c.Intn("dpos", len(m))
				switch c.Intn("dkind", 3) {
				case 0:
					m[i] ^= 1 << c.Intn("dbit", 8)
				case 1:
					m[i] = subAlphabet[c.Intn("dsub", len(subAlphabet))]
				case 2:
					m = m[:i]
				}
				if len(m) == 0 {
					break
				}
			}
			if !bc.try(m, "double") {
				return
			}
		}
	}
}
