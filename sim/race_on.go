//go:build race

package sim

const raceEnabled = true
