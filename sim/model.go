package sim

import (
	"bytes"
	"fmt"
	"math"
	"strconv"
	"strings"
)

// Kind of a model value.
type Kind uint8

const (
	KNull Kind = iota
	KBool
	KInt
	KUint
	KFloat
	KString
	KArray
	KObject
)

func (k Kind) String() string {
	return [...]string{"null", "bool", "int", "uint", "float", "string", "array", "object"}[k]
}

// MV is the reference-model value of a JSON document: member order and duplicate keys are kept.
type MV struct {
	K    Kind
	B    bool
	I    int64
	U    uint64
	F    float64
	Ovf  bool   // float that came from an integer literal overflowing int64 and uint64
	S    []byte // string content after unescaping
	Arr  []*MV
	Keys [][]byte
	Vals []*MV
}

func mvNull() *MV               { return &MV{K: KNull} }
func mvBool(b bool) *MV         { return &MV{K: KBool, B: b} }
func mvInt(i int64) *MV         { return &MV{K: KInt, I: i} }
func mvUint(u uint64) *MV       { return &MV{K: KUint, U: u} }
func mvFloat(f float64) *MV     { return &MV{K: KFloat, F: f} }
func mvString(s []byte) *MV     { return &MV{K: KString, S: append([]byte(nil), s...)} }
func (m *MV) isContainer() bool { return m.K == KArray || m.K == KObject }

// Clone deep-copies m.
func (m *MV) Clone() *MV {
	if m == nil {
		return nil
	}
	c := *m
	if m.S != nil {
		c.S = append([]byte(nil), m.S...)
	}
	if m.Arr != nil {
		c.Arr = make([]*MV, len(m.Arr))
		for i, e := range m.Arr {
			c.Arr[i] = e.Clone()
		}
	}
	if m.Keys != nil {
		c.Keys = make([][]byte, len(m.Keys))
		c.Vals = make([]*MV, len(m.Vals))
		for i := range m.Keys {
			c.Keys[i] = append([]byte(nil), m.Keys[i]...)
			c.Vals[i] = m.Vals[i].Clone()
		}
	}
	return &c
}

func cloneRoots(r []*MV) []*MV {
	out := make([]*MV, len(r))
	for i, m := range r {
		out[i] = m.Clone()
	}
	return out
}

// EqMode selects how numbers are compared.
type EqMode int

const (
	EqExact   EqMode = iota // kind, value bits and overflow flag exact (-0.0 float != 0.0 float is NOT distinguished: sign of zero ignored)
	EqNumeric               // numbers compared by numeric value across kinds (for marshalled text)
)

func numAsFloat(m *MV) (float64, bool) {
	switch m.K {
	case KInt:
		return float64(m.I), true
	case KUint:
		return float64(m.U), true
	case KFloat:
		return m.F, true
	}
	return 0, false
}

// numEqual reports whether got denotes the number the model value want holds. JSON text carries no
// number type: a float is printed shortest-round-trip (C18), so its text may re-parse as an integer whose
// exact value differs from the float's exact value while still rounding to the same float64. Hence: a
// float in the model is matched by any number that converts to exactly that float64; an integer in the
// model must be matched exactly.
func numEqual(want, got *MV) bool {
	switch want.K {
	case KFloat:
		switch got.K {
		case KFloat:
			return want.F == got.F || (math.IsNaN(want.F) && math.IsNaN(got.F))
		case KInt:
			return float64(got.I) == want.F
		case KUint:
			return float64(got.U) == want.F
		}
	case KInt:
		switch got.K {
		case KInt:
			return want.I == got.I
		case KUint:
			return want.I >= 0 && uint64(want.I) == got.U
		case KFloat:
			return got.F == math.Trunc(got.F) && got.F >= -9223372036854775808.0 && got.F < 9223372036854775808.0 && int64(got.F) == want.I && float64(want.I) == got.F
		}
	case KUint:
		switch got.K {
		case KUint:
			return want.U == got.U
		case KInt:
			return got.I >= 0 && uint64(got.I) == want.U
		case KFloat:
			return got.F == math.Trunc(got.F) && got.F >= 0 && got.F < 18446744073709551616.0 && uint64(got.F) == want.U && float64(want.U) == got.F
		}
	}
	return false
}

// Diff returns "" when a and b are equal under mode, otherwise a description of the first difference.
func Diff(a, b *MV, mode EqMode) string { return diffAt(a, b, mode, &dpath{seg: "$"}) }

// dpath is the path to the value being compared, rendered only when a difference is found (building the string on the
// way down is quadratic in the nesting depth).
type dpath struct {
	up  *dpath
	seg string
	idx int // array index when seg is empty
	key []byte
}

func (p *dpath) String() string {
	var segs []string
	for q := p; q != nil; q = q.up {
		switch {
		case q.seg != "":
			segs = append(segs, q.seg)
		case q.key != nil:
			segs = append(segs, "."+shortBytes(q.key))
		default:
			segs = append(segs, "["+strconv.Itoa(q.idx)+"]")
		}
	}
	var b strings.Builder
	for i := len(segs) - 1; i >= 0; i-- {
		b.WriteString(segs[i])
	}
	return b.String()
}

func diffAt(a, b *MV, mode EqMode, path *dpath) string {
	if a == nil || b == nil {
		if a == b {
			return ""
		}
		return path.String() + ": one side missing"
	}
	aNum := a.K == KInt || a.K == KUint || a.K == KFloat
	bNum := b.K == KInt || b.K == KUint || b.K == KFloat
	if mode == EqNumeric && aNum && bNum {
		if !numEqual(a, b) {
			return fmt.Sprintf("%s: number %s != %s", path, a.short(), b.short())
		}
		return ""
	}
	if a.K != b.K {
		return fmt.Sprintf("%s: kind %v (%s) != %v (%s)", path, a.K, a.short(), b.K, b.short())
	}
	switch a.K {
	case KBool:
		if a.B != b.B {
			return fmt.Sprintf("%s: bool %v != %v", path, a.B, b.B)
		}
	case KInt:
		if a.I != b.I {
			return fmt.Sprintf("%s: int %d != %d", path, a.I, b.I)
		}
	case KUint:
		if a.U != b.U {
			return fmt.Sprintf("%s: uint %d != %d", path, a.U, b.U)
		}
	case KFloat:
		same := a.F == b.F || (math.IsNaN(a.F) && math.IsNaN(b.F))
		if !same {
			return fmt.Sprintf("%s: float %v != %v", path, a.F, b.F)
		}
		if a.Ovf != b.Ovf {
			return fmt.Sprintf("%s: float overflow flag %v != %v (value %v)", path, a.Ovf, b.Ovf, a.F)
		}
	case KString:
		if !bytes.Equal(a.S, b.S) {
			return fmt.Sprintf("%s: string %s != %s", path, shortBytes(a.S), shortBytes(b.S))
		}
	case KArray:
		if len(a.Arr) != len(b.Arr) {
			return fmt.Sprintf("%s: array length %d != %d", path, len(a.Arr), len(b.Arr))
		}
		for i := range a.Arr {
			if d := diffAt(a.Arr[i], b.Arr[i], mode, &dpath{up: path, idx: i}); d != "" {
				return d
			}
		}
	case KObject:
		if len(a.Keys) != len(b.Keys) {
			return fmt.Sprintf("%s: object size %d != %d", path, len(a.Keys), len(b.Keys))
		}
		for i := range a.Keys {
			if !bytes.Equal(a.Keys[i], b.Keys[i]) {
				return fmt.Sprintf("%s: key #%d %s != %s", path, i, shortBytes(a.Keys[i]), shortBytes(b.Keys[i]))
			}
			if d := diffAt(a.Vals[i], b.Vals[i], mode, &dpath{up: path, key: nonNil(a.Keys[i])}); d != "" {
				return d
			}
		}
	}
	return ""
}

// DiffRoots compares two root lists.
func DiffRoots(a, b []*MV, mode EqMode) string {
	if len(a) != len(b) {
		return fmt.Sprintf("root count %d != %d", len(a), len(b))
	}
	for i := range a {
		if d := diffAt(a[i], b[i], mode, &dpath{seg: "$" + strconv.Itoa(i)}); d != "" {
			return d
		}
	}
	return ""
}

func shortBytes(b []byte) string {
	if len(b) > 24 {
		return strconv.Quote(string(b[:24])) + fmt.Sprintf("…(%d)", len(b))
	}
	return strconv.Quote(string(b))
}

func (m *MV) short() string {
	switch m.K {
	case KNull:
		return "null"
	case KBool:
		return strconv.FormatBool(m.B)
	case KInt:
		return "int:" + strconv.FormatInt(m.I, 10)
	case KUint:
		return "uint:" + strconv.FormatUint(m.U, 10)
	case KFloat:
		s := "float:" + strconv.FormatFloat(m.F, 'g', -1, 64)
		if m.Ovf {
			s += "(ovf)"
		}
		return s
	case KString:
		return shortBytes(m.S)
	case KArray:
		return fmt.Sprintf("array(%d)", len(m.Arr))
	case KObject:
		return fmt.Sprintf("object(%d)", len(m.Keys))
	}
	return "?"
}

// digest of a model value (structure-sensitive), used for fingerprints only.
func (m *MV) digest(f *fp) {
	f.u64(uint64(m.K))
	switch m.K {
	case KBool:
		if m.B {
			f.u64(1)
		} else {
			f.u64(0)
		}
	case KInt:
		f.u64(uint64(m.I))
	case KUint:
		f.u64(m.U)
	case KFloat:
		f.u64(math.Float64bits(m.F))
		if m.Ovf {
			f.u64(1)
		}
	case KString:
		f.bytes(m.S)
	case KArray:
		f.u64(uint64(len(m.Arr)))
		for _, e := range m.Arr {
			e.digest(f)
		}
	case KObject:
		f.u64(uint64(len(m.Keys)))
		for i := range m.Keys {
			f.bytes(m.Keys[i])
			m.Vals[i].digest(f)
		}
	}
}

func digestRoots(r []*MV) uint64 {
	f := newFP()
	for _, m := range r {
		m.digest(&f)
	}
	return f.h
}

// countNodes returns the number of values in m.
func (m *MV) countNodes() int {
	n := 1
	for _, e := range m.Arr {
		n += e.countNodes()
	}
	for _, e := range m.Vals {
		n += e.countNodes()
	}
	return n
}

// ---- addressing ----------------------------------------------------------------

// Pos addresses a value position: root index, then child indexes (array index or member index).
type Pos []int

func (p Pos) String() string {
	var b bytes.Buffer
	for i, x := range p {
		if i > 0 {
			b.WriteByte('/')
		}
		b.WriteString(strconv.Itoa(x))
	}
	return b.String()
}

// allPositions lists every value position below the roots in document order (roots themselves excluded).
func allPositions(roots []*MV, containers bool) []Pos {
	var out []Pos
	var rec func(m *MV, p Pos)
	rec = func(m *MV, p Pos) {
		kids := m.Arr
		if m.K == KObject {
			kids = m.Vals
		}
		for i, k := range kids {
			cp := append(append(Pos(nil), p...), i)
			if containers || !k.isContainer() {
				out = append(out, cp)
			}
			if k.isContainer() {
				rec(k, cp)
			}
		}
	}
	for r, m := range roots {
		rec(m, Pos{r})
	}
	return out
}

// allContainers lists every container (roots included), by position.
func allContainers(roots []*MV) []Pos {
	var out []Pos
	var rec func(m *MV, p Pos)
	rec = func(m *MV, p Pos) {
		if !m.isContainer() {
			return
		}
		out = append(out, append(Pos(nil), p...))
		kids := m.Arr
		if m.K == KObject {
			kids = m.Vals
		}
		for i, k := range kids {
			rec(k, append(append(Pos(nil), p...), i))
		}
	}
	for r, m := range roots {
		rec(m, Pos{r})
	}
	return out
}

func getAt(roots []*MV, p Pos) *MV {
	if len(p) == 0 || p[0] >= len(roots) {
		return nil
	}
	m := roots[p[0]]
	for _, x := range p[1:] {
		switch m.K {
		case KArray:
			if x >= len(m.Arr) {
				return nil
			}
			m = m.Arr[x]
		case KObject:
			if x >= len(m.Vals) {
				return nil
			}
			m = m.Vals[x]
		default:
			return nil
		}
	}
	return m
}

// setAt replaces the value at p (p must address a non-root position).
func setAt(roots []*MV, p Pos, v *MV) bool {
	if len(p) < 2 {
		return false
	}
	par := getAt(roots, p[:len(p)-1])
	if par == nil {
		return false
	}
	x := p[len(p)-1]
	switch par.K {
	case KArray:
		if x >= len(par.Arr) {
			return false
		}
		par.Arr[x] = v
	case KObject:
		if x >= len(par.Vals) {
			return false
		}
		par.Vals[x] = v
	default:
		return false
	}
	return true
}

// deleteMembers removes the members of container c for which del[i] is true.
func deleteMembers(c *MV, del []bool) {
	switch c.K {
	case KArray:
		var out []*MV
		for i, e := range c.Arr {
			if i < len(del) && del[i] {
				continue
			}
			out = append(out, e)
		}
		if out == nil {
			out = []*MV{}
		}
		c.Arr = out
	case KObject:
		var ks [][]byte
		var vs []*MV
		for i := range c.Keys {
			if i < len(del) && del[i] {
				continue
			}
			ks = append(ks, c.Keys[i])
			vs = append(vs, c.Vals[i])
		}
		if ks == nil {
			ks, vs = [][]byte{}, []*MV{}
		}
		c.Keys, c.Vals = ks, vs
	}
}

// ---- canonical text (debugging / replay files only; never an oracle) --------------

func (m *MV) appendText(dst []byte) []byte {
	switch m.K {
	case KNull:
		return append(dst, "null"...)
	case KBool:
		return strconv.AppendBool(dst, m.B)
	case KInt:
		return strconv.AppendInt(dst, m.I, 10)
	case KUint:
		return strconv.AppendUint(dst, m.U, 10)
	case KFloat:
		dst = strconv.AppendFloat(dst, m.F, 'g', -1, 64)
		if m.Ovf {
			dst = append(dst, "!ovf"...)
		}
		return dst
	case KString:
		return strconv.AppendQuote(dst, string(m.S))
	case KArray:
		dst = append(dst, '[')
		for i, e := range m.Arr {
			if i > 0 {
				dst = append(dst, ',')
			}
			dst = e.appendText(dst)
		}
		return append(dst, ']')
	case KObject:
		dst = append(dst, '{')
		for i := range m.Keys {
			if i > 0 {
				dst = append(dst, ',')
			}
			dst = strconv.AppendQuote(dst, string(m.Keys[i]))
			dst = append(dst, ':')
			dst = m.Vals[i].appendText(dst)
		}
		return append(dst, '}')
	}
	return dst
}

func rootsText(r []*MV, max int) string {
	var b []byte
	for i, m := range r {
		if i > 0 {
			b = append(b, '\n')
		}
		b = m.appendText(b)
		if len(b) > max {
			return string(b[:max]) + "…"
		}
	}
	return string(b)
}

func nonNil(b []byte) []byte {
	if b == nil {
		return []byte{}
	}
	return b
}
