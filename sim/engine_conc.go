package sim

import (
	"bytes"
	"fmt"
	"io"
	"os"
	"runtime"
	"runtime/debug"
	"sort"
	"sync"
	"testing"

	simdjson "github.com/minio/simdjson-go"
)

// E5 "conc": N caller goroutines, each running a drawn program on its *own* objects.
//
// Mode D (deterministic): one bubble, GOMAXPROCS=1; workers park between operations and at the
// pool-tenancy hooks inside Serialize/Deserialize; a seeded policy decides who runs, so a worker can be
// suspended while it holds (or has just returned) a pooled codec while other workers run through the
// same pool. Oracle: every operation's result equals its solo result and the model.
//
// Mode R (-race build): same programs; the schedule is a seeded sequence of *sets* of operations
// released together; inside a step the overlap is real parallelism judged by the race detector.

type concOp struct {
	kind int
	seed uint64
	mode int
}

const (
	opParseSmall = iota
	opParseLarge
	opParseND
	opTraverse
	opCloneEdit
	opSerialize
	opDeserialize
	opStream
	opEditOwn
	opDeserializeDamaged
	opParseInvalid
	opRefillClone
	opKinds
)

var concOpNames = [...]string{"parse-small", "parse-large", "parseND", "traverse", "clone+edit", "serialize", "deserialize", "stream", "edit-in-place", "deserialize-damaged", "parse-invalid", "refill-clone-refill"}

// concWorker is the per-goroutine state; nothing in it is shared with other workers.
type concWorker struct {
	id    int
	ops   []concOp
	obj   *simObj
	ser   *simdjson.Serializer
	blob  *simBlob
	held  *simObj              // a clone this worker keeps while it goes on using (and refilling) the source
	dst   *simdjson.ParsedJson // destination a failed Deserialize of this worker left behind: the caller owns it again
	digs  []uint64             // result digest per op
	run   *Run                 // worker-local oracle context
	notes []string
}

func drawProgram(c *Chooser, n int, codecHeavy bool) []concOp {
	ops := make([]concOp, n)
	for i := range ops {
		k := c.Pick("cop", 4, 2, 3, 3, 3, 6, 5, 1, 4, 2, 3, 2)
		ops[i] = concOp{kind: k, seed: c.U64("opseed"), mode: c.Intn("cmode", 4)}
		if codecHeavy && i > 0 {
			// everybody is inside the compressing Serialize / Deserialize at about the same time: as many simultaneous
			// tenants of whatever the codecs share behind the API as there are workers
			ops[i].kind = []int{opSerialize, opSerialize, opDeserialize}[c.Intn("heavyop", 3)]
			ops[i].mode = 1 + c.Intn("heavymode", 3)
		}
	}
	// make sure there is something to work on first
	ops[0].kind = []int{opParseSmall, opParseLarge, opParseND}[c.Pick("first", 4, 2, 1)]
	return ops
}

func tapeDigest(pj *simdjson.ParsedJson) uint64 {
	f := newFP()
	f.u64(hashU64s(pj.Tape))
	if pj.Strings != nil {
		f.u64(hashBytes(pj.Strings.B))
	}
	return f.h
}

// step executes op i of the worker and returns a digest of its observable result.
func (w *concWorker) step(i int) uint64 {
	op := w.ops[i]
	c := NewChooser(op.seed)
	r := w.run
	r.C = c
	what := fmt.Sprintf("worker %d op #%d (%s)", w.id, i, concOpNames[op.kind])
	f := newFP()
	f.u64(uint64(op.kind))
	switch op.kind {
	case opParseSmall, opParseLarge, opParseND:
		cfg := parseCfg{Copy: c.Intn("copy", 4) != 3, AVX512: hostAVX512, ND: op.kind == opParseND}
		var doc []byte
		switch op.kind {
		case opParseSmall:
			if c.Intn("longtail", 3) == 0 {
				// a long string ending right before the end of the message (the parser's padded-copy path)
				doc = GenDoc(c, DocSpec{Family: FamHugeString, Target: 450 + c.Intn("tailsz", 3000), WS: 0}).B
			} else {
				doc = GenDoc(c, DocSpec{Family: FamMixed, Target: 20 + c.Intn("sz", 400), WS: c.Pick("ws", 4, 2, 1), MaxDepth: 4, StrMax: 60}).B
			}
		case opParseLarge:
			if c.Intn("longtail", 4) == 0 {
				doc = GenDoc(c, DocSpec{Family: FamHugeString, Target: 9000 + c.Intn("tailsz", 30000), WS: 0}).B
			} else {
				doc = GenDoc(c, DocSpec{Family: pipeFams[c.Intn("fam", len(pipeFams))], Target: 9000 + c.Intn("lsz", 50000), WS: c.Pick("ws", 4, 2, 1)}).B
			}
		case opParseND:
			var buf bytes.Buffer
			for l := 0; l < 1+c.Intn("lines", 4); l++ {
				buf.Write(GenDoc(c, DocSpec{Family: FamMixed, Target: 20 + c.Intn("sz", 200), OneLine: true, MaxDepth: 3, StrMax: 40}).B)
				buf.WriteByte('\n')
			}
			doc = buf.Bytes()
		}
		// no kernel switching here: CPU feature state is process-wide and part of what must not mix
		buf := &simBuf{b: append([]byte(nil), doc...)}
		ref := refFor(doc, cfg.ND)
		var pj *simdjson.ParsedJson
		var perr error
		var opts []simdjson.ParserOption
		if !cfg.Copy {
			opts = append(opts, simdjson.WithCopyStrings(false))
		}
		var reuse *simdjson.ParsedJson
		if w.obj != nil && w.obj.pj != nil && c.Intn("reuse", 3) == 0 {
			reuse = w.obj.pj
			w.obj = nil
		}
		if w.dst != nil && c.Intn("reusefailed", 2) == 0 {
			// the object a failed call of this worker left behind is the caller's again: it goes on being used
			reuse, w.dst = w.dst, nil
		}
		err := safely(func() error {
			if cfg.ND {
				pj, perr = simdjson.ParseND(buf.b, reuse, opts...)
			} else {
				pj, perr = simdjson.Parse(buf.b, reuse, opts...)
			}
			return nil
		})
		if err != nil {
			walkerFail(r, "panic", what, err)
			return 0
		}
		if !ref.OK || perr != nil {
			r.violate("solo-equal", "parse-failed", fmt.Sprintf("%s: valid document rejected: %v", what, perr))
			return 0
		}
		w.obj = &simObj{pj: pj, model: ref.Roots, nd: cfg.ND, copy: cfg.Copy, buf: buf, origin: what}
		f.u64(tapeDigest(pj))
		readBack(r, w.obj, bInto, what, nil)
	case opTraverse:
		if w.obj == nil || !w.obj.readable() {
			return f.h
		}
		readBack(r, w.obj, bInto|bAdv|bIface|bMarshal, what, nil)
		if c.Intn("hot", 3) == 0 && len(w.obj.pj.Tape) < 4000 {
			// sustained traffic: the same read-only traversal many times over, while the others do the same
			n := 50 + c.Intn("hotn", 400)
			for k := 0; k < n && !r.failed(); k++ {
				readBack(r, w.obj, bIface, what+" (repeated traversal)", nil)
			}
		}
		if out, err := MarshalRoot(w.obj.pj); err == nil {
			f.bytes(out)
		}
	case opCloneEdit:
		if w.obj == nil || !w.obj.readable() {
			return f.h
		}
		var cl *simdjson.ParsedJson
		if err := safely(func() error { cl = w.obj.pj.Clone(nil); return nil }); err != nil {
			walkerFail(r, "panic", what, err)
			return 0
		}
		co := &simObj{pj: cl, model: cloneRoots(w.obj.model), nd: w.obj.nd, copy: true, origin: what}
		for k := 0; k < 1+c.Intn("nedits", 3) && !r.failed(); k++ {
			if c.Intn("editk", 2) == 0 {
				opSet(r, co, what)
			} else {
				opDelete(r, co, what)
			}
		}
		readBack(r, co, bInto|bAdv, what+": clone", nil)
		w.held = co
		readBack(r, w.obj, bInto, what+": original after editing the clone", nil)
		f.u64(tapeDigest(cl))
		if c.Intn("keepclone", 2) == 1 {
			w.obj = co
			w.held = nil // the clone is the worker's working object now (and may be refilled): nothing is held
		}
	case opEditOwn:
		if w.obj == nil || !w.obj.readable() || len(w.obj.pj.Tape) > 20000 {
			return f.h
		}
		for k := 0; k < 1+c.Intn("nedits", 3) && !r.failed(); k++ {
			if c.Intn("editk", 3) != 0 {
				opSet(r, w.obj, what)
			} else {
				opDelete(r, w.obj, what)
			}
		}
		readBack(r, w.obj, bInto|bAdv, what, nil)
		f.u64(digestRoots(w.obj.model))
	case opSerialize:
		if w.obj == nil || !w.obj.readable() {
			return f.h
		}
		w.ser.CompressMode(simdjson.CompressMode(op.mode))
		var blob []byte
		if err := safely(func() error { blob = w.ser.Serialize(nil, *w.obj.pj); return nil }); err != nil {
			walkerFail(r, "panic", what, err)
			return 0
		}
		w.blob = &simBlob{b: append([]byte(nil), blob...), model: cloneRoots(w.obj.model), nd: w.obj.nd, mode: op.mode}
		f.u64(uint64(len(w.obj.pj.Tape)))
	case opDeserialize:
		if w.blob == nil {
			return f.h
		}
		var out *simdjson.ParsedJson
		var derr error
		var dst *simdjson.ParsedJson
		if w.obj != nil && w.obj.pj != nil && (c.Intn("dst", 3) == 0 || (w.held != nil && c.Intn("dstheld", 2) == 0)) {
			dst = w.obj.pj
			w.obj = nil
		}
		if w.dst != nil {
			dst, w.dst = w.dst, nil
		}
		if err := safely(func() error { out, derr = w.ser.Deserialize(w.blob.b, dst); return nil }); err != nil {
			walkerFail(r, "panic", what, err)
			return 0
		}
		if derr != nil {
			r.violate("solo-equal", "deserialize-failed:"+msgClass(derr.Error()), fmt.Sprintf("%s: Deserialize of this worker's own blob (mode %d) failed: %v", what, w.blob.mode, derr))
			return 0
		}
		w.obj = &simObj{pj: out, model: cloneRoots(w.blob.model), nd: w.blob.nd, copy: true, origin: what}
		readBack(r, w.obj, bInto|bAdv, what, nil)
		if w.held != nil && !r.failed() {
			// the clone taken earlier is still what it was, whatever its source has been refilled with since
			readBack(r, w.held, bInto, what+": clone kept from an earlier operation", nil)
		}
		f.u64(tapeDigest(out))
	case opRefillClone:
		// Deserialize into the worker's own object, clone it, Deserialize another document into the source: the clone
		// taken in between keeps what it had
		if w.obj == nil || w.obj.pj == nil || w.blob == nil {
			return f.h
		}
		a := w.obj.pj
		w.obj = nil
		var out, b, out2 *simdjson.ParsedJson
		var derr error
		if err := safely(func() error { out, derr = w.ser.Deserialize(w.blob.b, a); return nil }); err != nil {
			walkerFail(r, "panic", what, err)
			return 0
		}
		if derr != nil {
			r.violate("solo-equal", "deserialize-failed:"+msgClass(derr.Error()), fmt.Sprintf("%s: Deserialize of this worker's own blob into its own object failed: %v", what, derr))
			return 0
		}
		if err := safely(func() error { b = out.Clone(nil); return nil }); err != nil {
			walkerFail(r, "panic", what, err)
			return 0
		}
		bo := &simObj{pj: b, model: cloneRoots(w.blob.model), nd: w.blob.nd, copy: true, origin: what + " clone"}
		readBack(r, bo, bInto, what+": clone of the refilled object", nil)
		if r.failed() {
			return 0
		}
		dy := GenDoc(c, DocSpec{Family: FamMixed, Target: 20 + c.Intn("sz", 400), WS: 0, MaxDepth: 4, StrMax: 40})
		ry := RefParse(dy.B)
		if !ry.OK || ry.Ambiguous {
			return f.h
		}
		var blobY []byte
		if err := safely(func() error {
			pjY, e := simdjson.Parse(dy.B, nil)
			if e != nil {
				return e
			}
			blobY = append([]byte(nil), w.ser.Serialize(nil, *pjY)...)
			out2, derr = w.ser.Deserialize(blobY, out)
			return nil
		}); err != nil {
			walkerFail(r, "panic", what, err)
			return 0
		}
		if derr != nil {
			r.violate("solo-equal", "deserialize-failed:"+msgClass(derr.Error()), fmt.Sprintf("%s: second Deserialize into the worker's own object failed: %v", what, derr))
			return 0
		}
		w.obj = &simObj{pj: out2, model: ry.Roots, copy: true, origin: what}
		readBack(r, w.obj, bInto, what+": source after the second refill", nil)
		if !r.failed() {
			readBack(r, bo, bInto|bAdv, what+": clone after its source was refilled with another document", nil)
		}
		w.held = bo
		f.u64(tapeDigest(out2))
	case opParseInvalid:
		// an invalid document, possibly with this worker's own object as reuse: the call fails; nobody else may notice
		d := GenDoc(c, DocSpec{Family: FamMixed, Target: 20 + c.Intn("sz", 600), WS: c.Pick("ws", 4, 2, 1), Record: true, MaxDepth: 4, StrMax: 60})
		if c.Intn("big", 4) == 0 {
			d = GenDoc(c, DocSpec{Family: FamMixed, Target: 9000 + c.Intn("lsz", 20000), WS: 1, Record: true})
		}
		bad := ApplyDefect(c, d, []int{DefMissingComma, DefBadAtom, DefUnbalanced, DefTruncate, DefCtrlInString, DefMissingColon}[c.Intn("def", 6)], c.Intn("defpos", 4))
		nd := c.Intn("nd", 2) == 1
		if ref := refFor(bad, nd); ref.OK || ref.Ambiguous {
			return f.h
		}
		var reuse *simdjson.ParsedJson
		if w.obj != nil && w.obj.pj != nil && c.Intn("reuse", 2) == 0 {
			reuse = w.obj.pj
			w.obj = nil
		}
		var perr error
		if err := safely(func() error {
			if nd {
				_, perr = simdjson.ParseND(bad, reuse)
			} else {
				_, perr = simdjson.Parse(bad, reuse)
			}
			return nil
		}); err != nil {
			walkerFail(r, "panic", what, err)
			return 0
		}
		if perr == nil {
			r.violate("solo-equal", "invalid-accepted", what+": invalid document accepted")
			return 0
		}
		// the call has returned: the input buffer and the object handed in are the caller's again
		for i := range bad {
			bad[i] = ' '
		}
		if reuse != nil {
			w.dst = reuse // the next Deserialize of this worker uses it as its destination
		}
		f.u64(1)
	case opDeserializeDamaged:
		if w.blob == nil {
			return f.h
		}
		// this worker's own blob with a damaged byte inside a block payload: an error (or any result) is fine for the
		// worker itself - what matters is that nobody else is affected
		bad := append([]byte(nil), w.blob.b...)
		if c.Intn("dmgforeign", 2) == 0 {
			// the damaged blob holds *another* document (long strings, compressed), damaged behind its message block: what a
			// decompressor of the failed call writes late is then different from what the retry below puts there
			d2 := GenDoc(c, DocSpec{Family: FamStrings, Target: 3000 + c.Intn("dmgsz", 60000), WS: 0})
			if p2, err := simdjson.Parse(append([]byte(nil), d2.B...), nil); err == nil {
				s2 := simdjson.NewSerializer()
				s2.CompressMode(simdjson.CompressMode(1 + c.Intn("dmgmode", 3)))
				bad = s2.Serialize(nil, *p2)
			}
		}
		if fr, err := parseFraming(bad); err == nil && c.Intn("dmgtype", 2) == 0 && fr.sec[2].typeOff >= 0 && fr.sec[3].typeOff >= 0 {
			bad[fr.sec[2+c.Intn("dmgtypesec", 2)].typeOff] = 9 // unknown block type behind the message block
		} else if fr, err := parseFraming(bad); err == nil {
			sec := 1 + c.Intn("dsec", 3)
			if fr.sec[sec].typeOff >= 0 && fr.sec[sec].payLen > 0 {
				bad[fr.sec[sec].payOff+c.Intn("dpos", fr.sec[sec].payLen)] ^= byte(1 + c.Intn("dbit", 255))
			} else {
				bad[len(bad)-1] ^= 0x5a
			}
		} else {
			bad[len(bad)-1] ^= 0x5a
		}
		var derr error
		ser, dst := simdjson.NewSerializer(), (*simdjson.ParsedJson)(nil)
		if c.Intn("dmgown", 2) == 0 {
			// with the worker's own Serializer, into the worker's own object: after the failed call both are the
			// caller's again and the next Deserialize of this worker reuses that destination
			ser = w.ser
			if w.obj != nil && w.obj.pj != nil {
				dst = w.obj.pj
				w.obj = nil
			}
		}
		var out *simdjson.ParsedJson
		if err := safely(func() error { out, derr = ser.Deserialize(bad, dst); return nil }); err != nil {
			walkerFail(r, "panic", what, err)
			return 0
		}
		if derr != nil {
			f.u64(1)
			w.dst = dst
			if dst != nil && c.Intn("dmgretry", 2) == 0 {
				// the caller tries again at once with the intact blob, same Serializer, same destination
				var out2 *simdjson.ParsedJson
				var derr2 error
				if err := safely(func() error { out2, derr2 = ser.Deserialize(w.blob.b, dst); return nil }); err != nil {
					walkerFail(r, "panic", what, err)
					return 0
				}
				if derr2 != nil {
					r.violate("solo-equal", "deserialize-failed:"+msgClass(derr2.Error()), fmt.Sprintf("%s: Deserialize of this worker's own blob right after a failed call failed: %v", what, derr2))
					return 0
				}
				w.dst = nil
				w.obj = &simObj{pj: out2, model: cloneRoots(w.blob.model), nd: w.blob.nd, copy: true, origin: what}
				readBack(r, w.obj, bInto|bAdv, what+" (retry after a failed Deserialize)", nil)
				f.u64(tapeDigest(out2))
			}
		} else if dst != nil {
			w.dst = out
		}
	case opStream:
		var buf bytes.Buffer
		n := 1 + c.Intn("lines", 6)
		for l := 0; l < n; l++ {
			buf.Write(GenDoc(c, DocSpec{Family: FamMixed, Target: 20 + c.Intn("sz", 100), OneLine: true, MaxDepth: 3, StrMax: 30}).B)
			buf.WriteByte('\n')
		}
		if c.Intn("blanktail", 4) == 0 {
			buf.WriteString([]string{"\n", " \n", "\n\n"}[c.Intn("blankkind", 3)])
		}
		ref := RefParseND(buf.Bytes())
		res := make(chan simdjson.Stream, 4)
		var rd io.Reader = bytes.NewReader(buf.Bytes())
		switch c.Intn("rdkind", 3) {
		case 1:
			rd = &lineReader{data: buf.Bytes()} // one line per Read
		case 2:
			rd = &lineReader{data: buf.Bytes(), max: 1 + c.Intn("rdmax", 7)}
		}
		var reuse chan *simdjson.ParsedJson
		if c.Intn("streamreuse", 2) == 0 {
			// results this worker is done with go back for reuse (its own stream only)
			reuse = make(chan *simdjson.ParsedJson, 1+c.Intn("streamreusecap", 3))
		}
		simdjson.ParseNDStream(rd, res, reuse)
		var got []*MV
		var last error
		for v := range res {
			if v.Error != nil {
				last = v.Error
				continue
			}
			roots, err := WalkInto(v.Value)
			if err != nil {
				walkerFail(r, "W-into", what, err)
				return 0
			}
			got = append(got, roots...)
			if reuse != nil {
				select {
				case reuse <- v.Value:
				default:
				}
			}
		}
		if last != io.EOF {
			r.violate("solo-equal", "stream-error", fmt.Sprintf("%s: stream ended with %v", what, last))
			return 0
		}
		if d := DiffRoots(ref.Roots, got, EqExact); d != "" {
			r.violate("solo-equal", "stream-docs", fmt.Sprintf("%s: %s", what, d))
			return 0
		}
		f.u64(digestRoots(got))
	}
	return f.h
}

func newConcWorkers(r *Run, progs [][]concOp) []*concWorker {
	ws := make([]*concWorker, len(progs))
	for i := range ws {
		ws[i] = &concWorker{id: i, ops: progs[i], ser: simdjson.NewSerializer(), run: newRun(r.T, nil, r.Prop, r.Tier)}
	}
	return ws
}

func collectWorkerViolations(r *Run, ws []*concWorker, phase string) {
	for _, w := range ws {
		for _, v := range w.run.Res.Violations {
			if len(r.Res.Violations) < 8 {
				v.Detail = phase + ": " + v.Detail
				r.Res.Violations = append(r.Res.Violations, v)
			}
		}
	}
}

// RunConc dispatches on the build / mode.
func RunConc(r *Run) {
	// the kernel family is process-wide state: chosen once per run, before any worker starts
	setKernel(r.C.Intn("avx512", 2) == 1)
	kernelSwitching = false
	defer func() { kernelSwitching = true }()
	if *flagMode == "race" {
		runConcRace(r)
		return
	}
	runConcDet(r)
}

func drawPrograms(r *Run) [][]concOp {
	c := r.C
	n := []int{2, 2, 3, 4, 4, 6, 8, 12, 16}[c.Intn("nworkers", 9)]
	many := false
	if r.thorough() && c.Intn("many", 4) == 0 {
		n = []int{16, 32, 64}[c.Intn("nmany", 3)]
		many = n > 16
	} else if !r.thorough() && c.Intn("manyq", 10) == 0 {
		// "N up to several times GOMAXPROCS" (16 here): in the quick tier too, with short programs
		n = []int{24, 32, 48, 64}[c.Intn("nmanyq", 4)]
		many = true
	}
	codecHeavy := c.Intn("codecheavy", 8) == 0 || many && c.Intn("codecheavymany", 2) == 0
	if codecHeavy {
		r.stat("codec_heavy_runs", 1)
	}
	if many {
		r.stat("runs_with_more_workers_than_cpus", 1)
	}
	progs := make([][]concOp, n)
	for i := range progs {
		l := 3 + c.Intn("proglen", 6)
		if many && !r.thorough() {
			l = 2 + c.Intn("proglenmany", 3)
		}
		progs[i] = drawProgram(c, l, codecHeavy)
	}
	return progs
}

// soloDigests runs every program alone, sequentially: the property's own definition of the expected result.
func soloDigests(r *Run, progs [][]concOp) ([][]uint64, bool) {
	ws := newConcWorkers(r, progs)
	out := make([][]uint64, len(ws))
	for i, w := range ws {
		for k := range w.ops {
			out[i] = append(out[i], w.step(k))
		}
	}
	for _, w := range ws {
		if len(w.run.Res.Violations) > 0 {
			// a program that fails alone is not a concurrency matter; other checks own it
			v := w.run.Res.Violations[0]
			r.stat("solo_failed:"+v.Sig, 1)
			if os.Getenv("VERIF_DEBUG_SOLO") != "" {
				fmt.Fprintln(os.Stderr, "SOLO-FAILURE", v.Detail)
			}
			if _, ok := r.Res.Sample["solo_failure"]; !ok {
				r.Res.Sample["solo_failure"] = v.Detail
			}
			return nil, false
		}
	}
	return out, true
}

func runConcDet(r *Run) {
	c := r.C
	stallResolvable.Store(true)
	defer stallResolvable.Store(false)
	progs := drawPrograms(r)
	solo, ok := soloDigests(r, progs)
	r.Res.Evals++
	if !ok {
		r.stat("solo_failed_skipped", 1)
		return
	}
	ws := newConcWorkers(r, progs)
	r.Res.Sample["workers"] = len(ws)
	var progDesc []string
	for _, p := range progs[:min(len(progs), 4)] {
		s := ""
		for _, o := range p {
			s += concOpNames[o.kind] + " "
		}
		progDesc = append(progDesc, s)
	}
	r.Res.Sample["programs"] = progDesc
	steps := 0
	overlaps := 0
	stuck := false
	oldGC := debug.SetGCPercent(-1)
	// no collection while a run is in flight (pool contents stay a function of the run), except under memory
	// pressure: every chunk owns a 10 MiB buffer, a few hundred of them must not exhaust the address-space limit
	oldLimit := debug.SetMemoryLimit(3 << 30)
	defer debug.SetMemoryLimit(oldLimit)
	runtime.GC()
	runtime.GC()
	oldProcs := runtime.GOMAXPROCS(1)
	leak, harness := runBubble(r.T, func(t *testing.T) {
		current := ""
		s := &Sched{classify: func(ev simdjson.SimEvent, h simdjson.SimHandle, arg int) (bool, string) {
			switch ev {
			case simdjson.SimPoolGet, simdjson.SimPoolPutBefore, simdjson.SimPoolPutAfter:
				return true, current
			}
			return false, ""
		}}
		curSched.Store(s)
		defer curSched.Store(nil)
		done := 0
		for _, w := range ws {
			w := w
			go func() {
				defer func() { done++ }()
				for k := range w.ops {
					s.Park(&Token{Owner: fmt.Sprintf("W%02d", w.id), Name: "op", Arg: k})
					w.digs = append(w.digs, w.step(k))
				}
			}()
		}
		bound := 0
		for _, p := range progs {
			bound += len(p) * 40
		}
		for {
			syncWait()
			toks := s.Snapshot()
			if done == len(ws) && len(toks) == 0 {
				return
			}
			if len(toks) == 0 {
				stuck = true
				r.violate("M-term", "deadlock", fmt.Sprintf("no worker can proceed (%d of %d finished)", done, len(ws)))
				return
			}
			if steps > bound+256 {
				stuck = true
				r.violate("M-term", "livelock", "step bound exceeded")
				s.ReleaseAll()
				return
			}
			stallStep.Store(int64(steps))
			if *flagFreeAt >= 0 && steps >= *flagFreeAt {
				// resolving a stall seen at this step in an earlier execution of the same seed: everything the simulator
				// holds goes on, nothing parks any more. Either every worker finishes (the block was an artefact of
				// holding goroutines inside library calls) or something stays blocked with nobody held (a deadlock).
				s.free.Store(true)
				s.ReleaseAll()
				r.trace("%d free-running from here", steps)
				syncWait()
				if done != len(ws) {
					stuck = true
					r.violate("M-term", "deadlock", fmt.Sprintf("after everything the simulator held was let go, %d of %d workers still cannot finish", len(ws)-done, len(ws)))
				}
				r.stat("stalls_resolved_as_artefact", 1)
				return
			}
			// group indistinguishable tokens
			type group struct {
				key  string
				toks []*Token
			}
			var groups []*group
			idx := map[string]*group{}
			holders := map[string]bool{}
			for _, tk := range toks {
				key := tk.String()
				g := idx[key]
				if g == nil {
					g = &group{key: key}
					idx[key] = g
					groups = append(groups, g)
				}
				g.toks = append(g.toks, tk)
				if tk.Name != "op" {
					holders[tk.Owner] = true
				}
			}
			sort.Slice(groups, func(i, j int) bool { return groups[i].key < groups[j].key })
			var pick *group
			if len(holders) > 0 && c.Intn("preferother", 4) != 0 {
				// somebody is inside a pool tenancy window: prefer running *other* workers' operations
				var others []*group
				for _, g := range groups {
					if !holders[g.toks[0].Owner] {
						others = append(others, g)
					}
				}
				if len(others) > 0 {
					pick = others[c.Intn("other", len(others))]
					overlaps++
				}
			}
			if pick == nil {
				pick = groups[c.Intn("group", len(groups))]
			}
			current = pick.toks[0].Owner
			r.trace("%d %s x%d", steps, pick.key, len(pick.toks))
			r.state(fmt.Sprintf("holders=%d runnable=%d", min(len(holders), 4), min(len(groups), 6)))
			for _, tk := range pick.toks {
				s.Release(tk)
			}
			steps++
		}
	})
	runtime.GOMAXPROCS(oldProcs)
	debug.SetGCPercent(oldGC)
	r.Res.Steps += steps
	r.Res.Evals++
	r.stat("tenancy_overlaps", overlaps)
	r.Res.NonTrivial = overlaps > 0
	if harness != "" {
		r.Res.Harness = harness
		return
	}
	if stuck {
		return
	}
	if leak != "" {
		r.violate("M-leak", "goroutine-left", "goroutines still blocked after all workers finished: "+leak)
		return
	}
	collectWorkerViolations(r, ws, "concurrent run")
	if r.failed() {
		return
	}
	for i, w := range ws {
		for k := range w.ops {
			if k >= len(w.digs) || w.digs[k] != solo[i][k] {
				r.violate("solo-equal", "digest:"+concOpNames[w.ops[k].kind], fmt.Sprintf("worker %d op #%d (%s) gave a different result than when the worker runs alone", i, k, concOpNames[w.ops[k].kind]))
				return
			}
		}
	}
}

// runConcRace: -race build. Seeded sets of operations released together; real parallelism inside a step.
func runConcRace(r *Run) {
	c := r.C
	progs := drawPrograms(r)
	solo, ok := soloDigests(r, progs)
	r.Res.Evals++
	if !ok {
		r.stat("solo_failed_skipped", 1)
		return
	}
	ws := newConcWorkers(r, progs)
	r.Res.Sample["workers"] = len(ws)
	procs := []int{2, 4, 16}[c.Intn("gomaxprocs", 3)]
	old := runtime.GOMAXPROCS(procs)
	defer runtime.GOMAXPROCS(old)
	type gate struct{ ch chan struct{} }
	gates := make([]chan struct{}, len(ws))
	arrived := make(chan int, len(ws))
	var mu sync.Mutex
	pos := make([]int, len(ws)) // next op index per worker (owned by the scheduler goroutine)
	for i, w := range ws {
		gates[i] = make(chan struct{})
		i, w := i, w
		go func() {
			for k := range w.ops {
				<-gates[i]
				d := w.step(k)
				mu.Lock()
				w.digs = append(w.digs, d)
				mu.Unlock()
				arrived <- i
			}
		}()
	}
	steps := 0
	multi := 0
	for {
		var ready []int
		for i, w := range ws {
			if pos[i] < len(w.ops) {
				ready = append(ready, i)
			}
		}
		if len(ready) == 0 {
			break
		}
		// release a drawn subset together
		var set []int
		for _, i := range ready {
			if c.Intn("inset", 3) != 0 {
				set = append(set, i)
			}
		}
		if len(set) == 0 {
			set = []int{ready[c.Intn("one", len(ready))]}
		}
		if len(set) > 1 {
			multi++
		}
		r.trace("%d release %v", steps, set)
		for _, i := range set {
			gates[i] <- struct{}{}
		}
		beginWait() // (the stall watchdog looks at goroutines blocked in library code if this lasts)
		for range set {
			<-arrived
			waitEpoch.Add(1) // progress
		}
		endWait()
		for _, i := range set {
			pos[i]++
		}
		steps++
	}
	if c.Intn("storm", 2) == 0 {
		// final phase: every worker reads its own object back many times over, all at once - sustained parallel
		// traffic through whatever the traversal code shares behind the API (caches, pools)
		n := 100 + c.Intn("stormn", 900)
		if len(ws) > 16 {
			n = 50 + n/4
		}
		start := make(chan struct{})
		var wg sync.WaitGroup
		k := 0
		for _, w := range ws {
			if w.obj == nil || !w.obj.readable() || len(w.obj.pj.Tape) > 4000 {
				continue
			}
			k++
			w := w
			wg.Add(1)
			go func() {
				defer wg.Done()
				<-start
				for i := 0; i < n && !w.run.failed(); i++ {
					readBack(w.run, w.obj, bIface, "repeated traversal while all other workers do the same", nil)
				}
			}()
		}
		close(start)
		beginWait()
		wg.Wait()
		endWait()
		if k > 1 {
			r.stat("traversal_storms", 1)
			r.stat("traversal_storm_reads", k*n)
		}
	}
	if c.Intn("codecstorm", 3) == 0 {
		// and a phase of sustained traffic through the codecs: every worker round-trips its own object through its own
		// Serializer in a compressing mode, over and over, all at once; every round must expose the worker's own document.
		// Anything the codecs share behind the API (pools, limiters, decoders) sees more simultaneous tenants than CPUs.
		n := 20 + c.Intn("codecstormn", 180)
		if len(ws) > 4 {
			n = 10 + n*4/len(ws) // the same total traffic whatever the number of workers: no single run takes tens of seconds
		}
		start := make(chan struct{})
		var wg sync.WaitGroup
		k := 0
		for _, w := range ws {
			if w.obj == nil || !w.obj.readable() || len(w.obj.pj.Tape) > 4000 {
				continue
			}
			k++
			w := w
			mode := simdjson.CompressMode(1 + c.Intn("codecstormmode", 3))
			failFirst := c.Intn("codecstormfail", 2) == 0
			failPos := c.U64("codecstormfailpos")
			wg.Add(1)
			go func() {
				defer wg.Done()
				ser := simdjson.NewSerializer()
				ser.CompressMode(mode)
				var dst *simdjson.ParsedJson
				<-start
				if failFirst {
					// a failed call right before the sustained traffic: this worker's own blob with one payload byte of a
					// compressed block changed - whatever the failure path does with shared codecs, everybody is about to use them
					err := safely(func() error {
						bad := ser.Serialize(nil, *w.obj.pj)
						if fr, ferr := parseFraming(bad); ferr == nil {
							sec := 1 + int(failPos%3)
							if fr.sec[sec].typeOff >= 0 && fr.sec[sec].payLen > 0 {
								bad[fr.sec[sec].payOff+int((failPos>>8)%uint64(fr.sec[sec].payLen))] ^= byte(1 + (failPos>>40)%255)
							}
						}
						simdjson.NewSerializer().Deserialize(bad, nil)
						return nil
					})
					if err != nil {
						walkerFail(w.run, "panic", "Deserialize of a damaged blob before the codec storm", err)
						return
					}
				}
				for i := 0; i < n && !w.run.failed(); i++ {
					out, _, err := RoundTrip(ser, ser, w.obj.pj, dst)
					if err != nil {
						walkerFail(w.run, "W-ser", "repeated serialize round trip while all other workers do the same", err)
						return
					}
					dst = out
					if i%16 == 0 || i == n-1 {
						got, err := WalkInto(out)
						if err != nil {
							walkerFail(w.run, "W-ser", "repeated serialize round trip while all other workers do the same", err)
							return
						}
						if d := DiffRoots(w.obj.model, got, EqExact); d != "" {
							w.run.violate("W-ser", "mismatch", "repeated serialize round trip while all other workers do the same: "+d)
							return
						}
					}
				}
			}()
		}
		close(start)
		beginWait()
		wg.Wait()
		endWait()
		if k > 1 {
			r.stat("codec_storms", 1)
			r.stat("codec_storm_round_trips", k*n)
		}
	}
	r.Res.Steps += steps
	r.Res.Evals++
	r.stat("parallel_steps", multi)
	r.Res.NonTrivial = multi > 0
	collectWorkerViolations(r, ws, "parallel run")
	if r.failed() {
		return
	}
	for i, w := range ws {
		for k := range w.ops {
			if k >= len(w.digs) || w.digs[k] != solo[i][k] {
				r.violate("solo-equal", "digest:"+concOpNames[w.ops[k].kind], fmt.Sprintf("worker %d op #%d (%s) gave a different result than when the worker runs alone", i, k, concOpNames[w.ops[k].kind]))
				return
			}
		}
	}
}

// lineReader returns one line (or at most max bytes) per Read.
type lineReader struct {
	data []byte
	off  int
	max  int
}

func (l *lineReader) Read(p []byte) (int, error) {
	if l.off >= len(l.data) {
		return 0, io.EOF
	}
	n := bytes.IndexByte(l.data[l.off:], '\n') + 1
	if n <= 0 {
		n = len(l.data) - l.off
	}
	if l.max > 0 && n > l.max {
		n = l.max
	}
	if n > len(p) {
		n = len(p)
	}
	copy(p, l.data[l.off:l.off+n])
	l.off += n
	return n, nil
}
