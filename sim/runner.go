package sim

import (
	"bufio"
	"encoding/base64"
	"encoding/json"
	"flag"
	"fmt"
	"os"
	"runtime"
	"runtime/debug"
	"sort"
	"strconv"
	"strings"
	"testing"
	"time"

	simdjson "github.com/minio/simdjson-go"
)

// Worker protocol (DESIGN Appendix C): the orchestrator starts this test binary with -sim.* flags;
// the worker appends JSON lines to -sim.out.

var (
	flagProp    = flag.String("sim.prop", "", "property id to check")
	flagTier    = flag.String("sim.tier", "quick", "quick|thorough")
	flagBase    = flag.Uint64("sim.base", 1, "base seed (VERIF_SEED)")
	flagFirst   = flag.Int("sim.first", 0, "first seed index")
	flagStride  = flag.Int("sim.stride", 1, "seed index stride")
	flagCount   = flag.Int("sim.count", 1<<30, "maximum number of seeds")
	flagBudget  = flag.Float64("sim.budget", 10, "wall-clock budget in seconds (orchestration only, never an oracle)")
	flagOut     = flag.String("sim.out", "", "output file (JSON lines)")
	flagReplay  = flag.String("sim.replay", "", "replay file to re-execute")
	flagReplayO = flag.String("sim.replaydir", "", "directory for replay files")
	flagShrink  = flag.Float64("sim.shrink", 45, "shrink budget in seconds")
	flagRecheck = flag.Int("sim.recheck", 50, "re-execute every n-th seed and compare fingerprints (0: never)")
	flagFPLog   = flag.String("sim.fplog", "", "write 'index fingerprint' lines (determinism self-test)")
	flagMode    = flag.String("sim.mode", "", "engine sub-mode (e.g. race)")
	flagKnown   = flag.String("sim.known", "", "known_findings.jsonl (signatures that are reported as known and not shrunk)")
	flagNoShr   = flag.Bool("sim.noshrink", false, "do not shrink or stop on violations")
	flagDump    = flag.String("sim.dumpdir", "", "write full materialised inputs of a replay here (debugging)")
	flagFreeAt  = flag.Int("sim.freeafter", -1, "C20 deterministic mode: from this scheduler step on nothing is parked any more (resolves a stall: is a goroutine blocked on something outside the simulation released once the goroutines the simulator held go on?)")
	flagXDir    = flag.String("sim.xdir", "", "scratch directory for the cross-build blob exchange (C11)")
)

// shrinkBeat, when set, is called before every shrink execution (the worker writes a heartbeat line so that the
// orchestrator's stall watchdog can tell a long minimisation from a stuck process).
var shrinkBeat func()

// replayInputs holds the materialised inputs of the replay file being re-executed (nil otherwise).
var replayInputs map[string]string

// engines maps a property to its run function.
var engines = map[string]func(r *Run){}

func propSalt(prop string) uint64 { return hashBytes([]byte(prop)) }

// SeedFor derives the run seed of index i.
func SeedFor(base uint64, prop string, i int) uint64 { return Mix(base, propSalt(prop), uint64(i)) }

// execute runs one tape (generate or replay) and returns the result; panics of the harness itself are
// converted into Harness trouble, crashes on library goroutines kill the process (the parent sees BEGIN without END).
func execute(t *testing.T, prop, tier string, c *Chooser) (res *RunResult) {
	fn := engines[prop]
	if fn == nil {
		return &RunResult{Harness: "no engine for property " + prop}
	}
	r := newRun(t, c, prop, tier)
	defer func() {
		if rec := recover(); rec != nil {
			if _, ok := rec.(tapeOverrun); ok {
				r.Res.Harness = "choice tape overrun"
			} else {
				r.Res.Harness = fmt.Sprintf("harness panic: %v\n%s", rec, debug.Stack())
			}
			res = r.Res
		}
		curSched.Store(nil)
		setKernel(hostAVX512)
	}()
	// destination values for Root/Object/Array: fresh per run, then kept across all documents of the run (drawn per run)
	walkDsts = &walkDstCache{}
	findDsts = &walkDstCache{}
	blindDsts = &walkDstCache{reuse: true} // (a run starts from fresh destinations: one seed, one execution)
	blindElems = nil
	if prop != "C20" && prop != "C11X" {
		// (C20 runs several caller goroutines at once: a shared destination cache would be the harness's own race)
		walkDsts.reuse = c.Intn("walkdsts", 2) == 1
	}
	before := simdjson.SimProbeSnapshot()
	fn(r)
	after := simdjson.SimProbeSnapshot()
	for i := range after {
		if d := after[i] - before[i]; d > 0 {
			r.Res.Stats["probe_"+simdjson.SimProbeNames[i]] += int(d)
		}
	}
	r.finish()
	return r.Res
}

type outLine struct {
	T        string         `json:"t"`
	Index    int            `json:"i"`
	Seed     uint64         `json:"seed"`
	FP       string         `json:"fp,omitempty"`
	Evals    int            `json:"evals,omitempty"`
	Steps    int            `json:"steps,omitempty"`
	NonTriv  bool           `json:"nontrivial,omitempty"`
	Distinct int            `json:"distinct,omitempty"`
	Exh      bool           `json:"exhaustive,omitempty"`
	Stats    map[string]int `json:"stats,omitempty"`
	States   []string       `json:"states,omitempty"`
	Sample   map[string]any `json:"sample,omitempty"`
	Viol     *Violation     `json:"violation,omitempty"`
	Replay   string         `json:"replay,omitempty"`
	Msg      string         `json:"msg,omitempty"`
	Shrunk   string         `json:"shrunk,omitempty"`
	Dups     int            `json:"rechecked,omitempty"`
	Ms       int            `json:"ms,omitempty"` // wall time of the run (reporting only; never feeds a decision)
}

// ReplayFile is the on-disk reproduction of a violation (DESIGN Appendix B).
type ReplayFile struct {
	Version   int               `json:"version"`
	Property  string            `json:"property"`
	Oracle    string            `json:"oracle"`
	Signature string            `json:"signature"`
	Violation string            `json:"violation"`
	Seed      uint64            `json:"seed"`
	Index     int               `json:"index"`
	Tier      string            `json:"tier"`
	Mode      string            `json:"mode,omitempty"`
	Build     map[string]string `json:"build"`
	Tape      []int             `json:"tape"`
	Labels    []string          `json:"labels,omitempty"`
	Inputs    map[string]string `json:"inputs,omitempty"`
	Sample    map[string]any    `json:"sample,omitempty"`
	Trace     []string          `json:"trace,omitempty"`
}

func hasSig(res *RunResult, sig string) bool {
	for _, v := range res.Violations {
		if v.Sig == sig {
			return true
		}
	}
	return false
}

// shrink minimises the tape while the same signature persists.
func shrink(t *testing.T, prop, tier string, tape []int, sig string, budget time.Duration) ([]int, int) {
	deadline := time.Now().Add(budget)
	tries := 0
	try := func(cand []int) bool {
		if time.Now().After(deadline) {
			return false
		}
		if shrinkBeat != nil {
			shrinkBeat()
		}
		tries++
		res := execute(t, prop, tier, NewReplay(cand))
		if replayInexact(prop) {
			// free-running parallel executions: the same tape shows the violation only with some probability; a
			// candidate is kept only if it shows it in two of up to four executions (so that the result replays)
			hits := 0
			if res.Harness == "" && hasSig(res, sig) {
				hits++
			}
			for k := 0; k < 3 && hits < 2 && hits+3-k >= 2; k++ {
				res = execute(t, prop, tier, NewReplay(cand))
				if res.Harness == "" && hasSig(res, sig) {
					hits++
				}
			}
			return hits >= 2
		}
		return res.Harness == "" && hasSig(res, sig)
	}
	cur := append([]int(nil), tape...)
	// 1. truncate the tail (exhausted tape draws 0 = simplest choice)
	for n := len(cur) / 2; n >= 1; n /= 2 {
		for len(cur) > n {
			cand := cur[:len(cur)-n]
			if try(cand) {
				cur = append([]int(nil), cand...)
			} else {
				break
			}
		}
	}
	improved := true
	for improved && time.Now().Before(deadline) {
		improved = false
		// 2. delete blocks
		for bs := len(cur) / 2; bs >= 1; bs /= 2 {
			for i := 0; i+bs <= len(cur); {
				cand := append(append([]int(nil), cur[:i]...), cur[i+bs:]...)
				if try(cand) {
					cur = cand
					improved = true
				} else {
					i += bs
				}
				if time.Now().After(deadline) {
					return cur, tries
				}
			}
		}
		// 3. zero, then halve individual draws
		for i := range cur {
			if cur[i] == 0 {
				continue
			}
			old := cur[i]
			cur[i] = 0
			if try(cur) {
				improved = true
				continue
			}
			cur[i] = old / 2
			if cur[i] != old && try(cur) {
				improved = true
				continue
			}
			cur[i] = old - 1
			if try(cur) {
				improved = true
				continue
			}
			cur[i] = old
			if time.Now().After(deadline) {
				return cur, tries
			}
		}
	}
	return cur, tries
}

func buildInfo() map[string]string {
	m := map[string]string{"go": runtime.Version(), "tags": "verif", "race": strconv.FormatBool(raceEnabled)}
	return m
}

func writeReplay(dir string, rf *ReplayFile) (string, error) {
	if dir == "" {
		dir = "."
	}
	os.MkdirAll(dir, 0o755)
	name := fmt.Sprintf("%s/%s-%d.json", dir, rf.Property, rf.Seed)
	b, err := json.MarshalIndent(rf, "", " ")
	if err != nil {
		return "", err
	}
	return name, os.WriteFile(name, b, 0o644)
}

// WorkerMain is the body of TestSim.
func WorkerMain(t *testing.T) {
	if *flagProp == "" && *flagReplay == "" {
		t.Skip("no -sim.prop given")
	}
	simdjson.NewSerializer() // package-level zstd decoder must be created outside any bubble
	simdjson.SimHook = hookDispatch
	startStallWatchdog()
	if *flagReplay != "" {
		replayMain(t)
		return
	}
	var out *bufio.Writer
	if *flagOut != "" {
		f, err := os.OpenFile(*flagOut, os.O_CREATE|os.O_WRONLY|os.O_APPEND, 0o644)
		if err != nil {
			t.Fatal(err)
		}
		defer f.Close()
		out = bufio.NewWriter(f)
	} else {
		out = bufio.NewWriter(os.Stdout)
	}
	emit := func(l outLine) {
		b, _ := json.Marshal(l)
		out.Write(b)
		out.WriteByte('\n')
		out.Flush()
	}
	var fplog *bufio.Writer
	if *flagFPLog != "" {
		f, err := os.Create(*flagFPLog)
		if err != nil {
			t.Fatal(err)
		}
		defer f.Close()
		fplog = bufio.NewWriter(f)
		defer fplog.Flush()
	}
	prop, tier := *flagProp, *flagTier
	lastBeat := time.Now()
	shrinkBeat = func() {
		if time.Since(lastBeat) > 10*time.Second {
			lastBeat = time.Now()
			emit(outLine{T: "beat", Msg: "minimising"})
		}
	}
	known := loadKnown(*flagKnown)
	start := time.Now()
	budget := time.Duration(*flagBudget * float64(time.Second))
	n := 0
	for k := 0; k < *flagCount; k++ {
		if k > 0 && time.Since(start) > budget {
			break
		}
		idx := *flagFirst + k**flagStride
		seed := SeedFor(*flagBase, prop, idx)
		emit(outLine{T: "begin", Index: idx, Seed: seed})
		c := NewChooser(seed)
		runStart := time.Now()
		res := execute(t, prop, tier, c)
		runMs := int(time.Since(runStart) / time.Millisecond)
		n++
		if res.Harness != "" {
			emit(outLine{T: "fatal-harness", Index: idx, Seed: seed, Msg: res.Harness})
			t.Fatalf("harness trouble at seed index %d: %s", idx, res.Harness)
		}
		states := make([]string, 0, len(res.States))
		for s := range res.States {
			states = append(states, s)
		}
		sort.Strings(states)
		line := outLine{T: "end", Index: idx, Seed: seed, FP: strconv.FormatUint(res.FP, 16), Evals: res.Evals, Steps: res.Steps,
			NonTriv: res.NonTrivial, Distinct: res.Distinct, Exh: res.Exhaustive, Stats: res.Stats, States: states, Ms: runMs}
		if n <= 3 || len(res.Violations) > 0 {
			line.Sample = res.Sample
			if len(res.Trace) > 0 && line.Sample != nil {
				k := len(res.Trace)
				if k > 30 {
					k = 30
				}
				line.Sample["trace_head"] = res.Trace[:k]
				line.Sample["trace_events"] = len(res.Trace)
			}
		}
		if fplog != nil {
			ev := res.Evals
			if prop == "C19" {
				ev = 0 // the number of distinct mutated blobs depends on the process-random string-dedup hash seed
			}
			fmt.Fprintf(fplog, "%d %x %d %d\n", idx, res.FP, ev, len(res.Violations))
		}
		// determinism self-check: re-execute a sample of seeds from their recorded tapes
		if *flagRecheck > 0 && (idx%*flagRecheck == 0 || len(res.Violations) > 0) {
			res2 := execute(t, prop, tier, NewReplay(c.Values()))
			if res2.Harness == "" && (res2.FP != res.FP || len(res2.Violations) != len(res.Violations)) && !replayInexact(prop) {
				emit(outLine{T: "fatal-harness", Index: idx, Seed: seed, Msg: fmt.Sprintf("nondeterministic-harness: replay of the recorded tape diverged (fp %x vs %x, violations %d vs %d)", res.FP, res2.FP, len(res.Violations), len(res2.Violations))})
				t.Fatalf("nondeterministic harness at seed index %d", idx)
			}
			line.Dups = 1
		}
		emit(line)
		if len(res.Violations) > 0 && known[res.Violations[0].Sig] {
			v := res.Violations[0]
			emit(outLine{T: "known", Index: idx, Seed: seed, Viol: &v})
			continue
		}
		if len(res.Violations) > 0 && *flagNoShr {
			v := res.Violations[0]
			emit(outLine{T: "violation-raw", Index: idx, Seed: seed, Viol: &v})
			continue
		}
		if len(res.Violations) > 0 {
			v := res.Violations[0]
			tape := c.Values()
			shr, tries := shrink(t, prop, tier, tape, v.Sig, time.Duration(*flagShrink*float64(time.Second)))
			emit(outLine{T: "beat", Msg: "minimised"})
			final := execute(t, prop, tier, NewReplay(shr))
			emit(outLine{T: "beat", Msg: "re-executed"})
			if final.Harness != "" || !hasSig(final, v.Sig) {
				shr = tape
				final = res
			}
			fv := v
			for _, x := range final.Violations {
				if x.Sig == v.Sig {
					fv = x
				}
			}
			fc := NewReplay(shr)
			execute(t, prop, tier, fc) // to recover labels
			labels := make([]string, 0, len(fc.Tape))
			for i, d := range fc.Tape {
				if i >= len(shr) || i >= 2000 {
					break
				}
				labels = append(labels, d.L)
			}
			rf := &ReplayFile{Version: 1, Property: prop, Oracle: fv.Oracle, Signature: fv.Sig, Violation: fv.Detail, Seed: seed, Index: idx,
				Tier: tier, Mode: *flagMode, Build: buildInfo(), Tape: shr, Labels: labels, Inputs: final.Inputs, Sample: final.Sample, Trace: final.Trace}
			path, err := writeReplay(*flagReplayO, rf)
			if err != nil {
				emit(outLine{T: "fatal-harness", Index: idx, Seed: seed, Msg: "cannot write replay: " + err.Error()})
				t.Fatal(err)
			}
			emit(outLine{T: "violation", Index: idx, Seed: seed, Viol: &fv, Replay: path, Shrunk: fmt.Sprintf("%d -> %d draws in %d executions", len(tape), len(shr), tries)})
			break // first unknown violation ends this worker
		}
	}
	emit(outLine{T: "done", Index: n, Msg: fmt.Sprintf("%.2fs", time.Since(start).Seconds())})
}

func loadKnown(path string) map[string]bool {
	out := map[string]bool{}
	if path == "" {
		return out
	}
	b, err := os.ReadFile(path)
	if err != nil {
		return out
	}
	for _, l := range strings.Split(string(b), "\n") {
		l = strings.TrimSpace(l)
		if !strings.HasPrefix(l, "{") {
			continue
		}
		var e struct {
			Status    string `json:"status"`
			Signature string `json:"signature"`
		}
		if json.Unmarshal([]byte(l), &e) == nil && e.Status == "known" {
			out[e.Signature] = true
		}
	}
	return out
}

// replayInexact lists properties whose sub-mode is not bit-for-bit repeatable (documented in DESIGN §5.5).
func replayInexact(prop string) bool { return *flagMode == "race" }

func replayMain(t *testing.T) {
	b, err := os.ReadFile(*flagReplay)
	if err != nil {
		t.Fatal(err)
	}
	var rf ReplayFile
	if err := json.Unmarshal(b, &rf); err != nil {
		t.Fatal(err)
	}
	if rf.Mode != "" {
		*flagMode = rf.Mode
	}
	if g, ok := rf.Inputs["xblob_gob"]; ok {
		dir, err := os.MkdirTemp("", "xreplay-")
		if err != nil {
			t.Fatal(err)
		}
		defer os.RemoveAll(dir)
		raw, _ := base64.StdEncoding.DecodeString(g)
		os.WriteFile(dir+"/x-replay.gob", raw, 0o644)
		*flagXDir = dir
		rf.Property = "C11X"
	}
	replayInputs = rf.Inputs
	res := execute(t, rf.Property, rf.Tier, NewReplay(rf.Tape))
	for k := 0; k < 30 && replayInexact(rf.Property) && res.Harness == "" && !hasSig(res, rf.Signature); k++ {
		// free-running parallel mode: which goroutine meets which is not ours to decide there; the same program is
		// executed again (bounded) until the recorded violation shows
		res = execute(t, rf.Property, rf.Tier, NewReplay(rf.Tape))
	}
	if res.Harness != "" {
		fmt.Printf("REPLAY-HARNESS-TROUBLE %s\n", res.Harness)
		t.Fatalf("harness trouble: %s", res.Harness)
	}
	for _, v := range res.Violations {
		fmt.Printf("REPLAY-VIOLATION property=%s signature=%s detail=%s\n", v.Property, v.Sig, strings.ReplaceAll(v.Detail, "\n", " "))
	}
	if hasSig(res, rf.Signature) {
		fmt.Printf("REPLAY-REPRODUCED property=%s signature=%s\n", rf.Property, rf.Signature)
	} else {
		fmt.Printf("REPLAY-NOT-REPRODUCED property=%s signature=%s\n", rf.Property, rf.Signature)
	}
}
