package sim

import (
	"bytes"
	"encoding/base64"
	"fmt"
	"os"
	"runtime"
	"strings"
	"testing"
	"time"

	"github.com/klauspost/cpuid/v2"
	simdjson "github.com/minio/simdjson-go"
)

// E1 "pipe": one real Parse/ParseND call whose stage-1 producer (the calling goroutine) and
// stage-2 consumer (the goroutine it starts) are parked at every hand-off hook; a seeded policy
// decides who proceeds. Monitors state C07's text: no interleaving loses, repeats or overwrites
// structural indexes before they are consumed; both stages terminate.

// ---- configuration shared by engines ---------------------------------------------------------

type parseCfg struct {
	ND     bool
	Copy   bool
	AVX512 bool
}

func (c parseCfg) String() string {
	k := "avx2"
	if c.AVX512 {
		k = "avx512"
	}
	f := "Parse"
	if c.ND {
		f = "ParseND"
	}
	return fmt.Sprintf("%s/%s/copy=%v", f, k, c.Copy)
}

var hostAVX512 = cpuid.CPU.Has(cpuid.AVX512F)

// kernelSwitching is false while several caller goroutines run at once (CPU feature state is process-wide).
var kernelSwitching = true

// setKernel selects the stage-1 kernel family through the dependency's own seam.
func setKernel(avx512 bool) {
	if !hostAVX512 || !kernelSwitching {
		return
	}
	if avx512 {
		cpuid.CPU.Enable(cpuid.AVX512F)
	} else {
		cpuid.CPU.Disable(cpuid.AVX512F)
	}
}

func drawCfg(c *Chooser, allowND bool) parseCfg {
	cfg := parseCfg{Copy: c.Intn("copy", 4) != 3}
	if hostAVX512 {
		cfg.AVX512 = c.Intn("avx512", 2) == 1
	}
	if allowND {
		cfg.ND = c.Intn("nd", 4) == 3
	}
	return cfg
}

// onParseCall, when set, is told about every library parse call the harness makes (call boundary for the ring monitor).
var onParseCall func()

func doParse(b []byte, reuse *simdjson.ParsedJson, cfg parseCfg) (*simdjson.ParsedJson, error) {
	if f := onParseCall; f != nil {
		f()
	}
	setKernel(cfg.AVX512)
	var opts []simdjson.ParserOption
	if !cfg.Copy {
		opts = append(opts, simdjson.WithCopyStrings(false))
	}
	if cfg.ND {
		return simdjson.ParseND(b, reuse, opts...)
	}
	return simdjson.Parse(b, reuse, opts...)
}

// ---- policies -------------------------------------------------------------------------------

const (
	polUniform       = iota
	polProducerFirst // run-until-blocked, producer leads
	polConsumerFirst // run-until-blocked, consumer leads
	polBiasP02
	polBiasP10
	polBiasP90
	polBiasP98
	polBursts
	polPCT
	polStarveP
	polStarveC
	polCount
)

var polNames = [...]string{"uniform", "producer-first", "consumer-first", "p=0.02", "p=0.10", "p=0.90", "p=0.98", "bursts", "pct", "starve-producer", "starve-consumer"}

type pipePolicy struct {
	kind      int
	burstWho  int
	burstLeft int
	pctPrio   [2]int
	pctChange []int
	starveFor int
}

func newPipePolicy(c *Chooser, kind int, expectSteps int) *pipePolicy {
	p := &pipePolicy{kind: kind}
	switch kind {
	case polPCT:
		p.pctPrio = [2]int{c.Intn("pct0", 2), 0}
		p.pctPrio[1] = 1 - p.pctPrio[0]
		d := 1 + c.Intn("pctd", 3)
		for i := 0; i < d; i++ {
			p.pctChange = append(p.pctChange, c.Intn("pctk", expectSteps+1))
		}
	case polStarveP, polStarveC:
		p.starveFor = 1 + c.Intn("starve", expectSteps+1)
	}
	return p
}

// choose returns the index into toks (toks sorted canonically; owners are "C" and "P").
func (p *pipePolicy) choose(c *Chooser, toks []*Token, step int) int {
	if len(toks) == 1 {
		return 0
	}
	pi, ci := -1, -1
	others := 0
	for i, t := range toks {
		switch t.Owner {
		case "P":
			pi = i
		case "C":
			ci = i
		default:
			others++
		}
	}
	if others > 0 {
		// codec goroutines present: uniform choice among everything parked
		return c.Intn("pick", len(toks))
	}
	if pi < 0 || ci < 0 {
		return c.Intn("pick", len(toks))
	}
	pickP := func(b bool) int {
		if b {
			return pi
		}
		return ci
	}
	switch p.kind {
	case polProducerFirst:
		return pi
	case polConsumerFirst:
		return ci
	case polBiasP02:
		return pickP(c.Bool("bias", 2, 100))
	case polBiasP10:
		return pickP(c.Bool("bias", 10, 100))
	case polBiasP90:
		return pickP(c.Bool("bias", 90, 100))
	case polBiasP98:
		return pickP(c.Bool("bias", 98, 100))
	case polBursts:
		if p.burstLeft <= 0 {
			p.burstWho = c.Intn("burstwho", 2)
			p.burstLeft = 1
			for p.burstLeft < 64 && c.Intn("burstlen", 4) != 0 {
				p.burstLeft++
			}
		}
		p.burstLeft--
		return pickP(p.burstWho == 1)
	case polPCT:
		for _, k := range p.pctChange {
			if k == step {
				p.pctPrio[0], p.pctPrio[1] = p.pctPrio[1], p.pctPrio[0]
			}
		}
		return pickP(p.pctPrio[0] == 1)
	case polStarveP:
		if step < p.starveFor {
			return ci
		}
		return pickP(c.Intn("pick", 2) == 1)
	case polStarveC:
		if step < p.starveFor {
			return pi
		}
		return pickP(c.Intn("pick", 2) == 1)
	}
	return pickP(c.Intn("pick", 2) == 1)
}

// ---- ring monitor ---------------------------------------------------------------------------

type sentBuf struct {
	slot   int
	length int
	digest uint64
	seq    int
}

type ringMonitor struct {
	r          *Run
	h          simdjson.SimHandle
	acquired   int // slot last acquired by the producer (-1 none)
	inflight   []sentBuf
	held       *sentBuf
	termSent   bool
	termRecv   bool
	sent, recv int
	maxLag     int
	lastCRecv  int
	violated   bool
}

func newRingMonitor(r *Run) *ringMonitor { return &ringMonitor{r: r, acquired: -1} }

func (m *ringMonitor) fail(oracle, disc, detail string) {
	if !m.violated {
		m.violated = true
		m.r.violate(oracle, disc, detail)
	}
}

// observe processes a token the first time it is seen parked.
func (m *ringMonitor) observe(t *Token) {
	switch t.Ev {
	case simdjson.SimPAcquire:
		m.h = t.H
		s := t.Arg
		if s < 0 {
			m.fail("M-slot", "acquire-foreign", "producer fills a buffer that is not a slot of the ring")
		}
		for _, b := range m.inflight {
			if b.slot == s {
				m.fail("M-slot", "acquire-inflight", fmt.Sprintf("producer acquired ring slot %d while buffer #%d in that slot is still in the channel (sent %d, received %d)", s, b.seq, m.sent, m.recv))
			}
		}
		if m.held != nil && m.held.slot == s {
			m.fail("M-slot", "acquire-held", fmt.Sprintf("producer acquired ring slot %d while the consumer still holds buffer #%d in it (sent %d, received %d)", s, m.held.seq, m.sent, m.recv))
		}
		if m.termSent {
			m.fail("M-fifo", "acquire-after-terminator", "producer acquired a slot after sending the terminator")
		}
		m.acquired = s
	case simdjson.SimPSend:
		if m.termSent {
			m.fail("M-fifo", "send-after-terminator", "producer sends after the terminator")
		}
		if t.Arg < 0 {
			m.termSent = true
			return
		}
		if m.acquired < 0 {
			m.fail("M-fifo", "send-without-acquire", "producer sends a buffer it did not acquire")
			return
		}
		b := sentBuf{slot: m.acquired, length: t.Arg, seq: m.sent}
		b.digest = simdjson.SimSlotDigest(t.H, b.slot, b.length)
		m.inflight = append(m.inflight, b)
		m.sent++
		if lag := len(m.inflight); lag > m.maxLag {
			m.maxLag = lag
		}
		m.acquired = -1
	case simdjson.SimCRecv:
		m.lastCRecv = t.Arg
		if m.held != nil {
			// consumer is done with the buffer: its content must not have changed while it was held
			if d := simdjson.SimSlotDigest(t.H, m.held.slot, m.held.length); d != m.held.digest {
				m.fail("M-fifo", "overwritten-while-held", fmt.Sprintf("buffer #%d (slot %d) changed between hand-off and the moment the consumer finished with it", m.held.seq, m.held.slot))
			}
			m.held = nil
		}
	case simdjson.SimCReceived:
		if m.termRecv {
			m.fail("M-fifo", "receive-after-terminator", "consumer received after the terminator")
			return
		}
		if t.Arg == -1 {
			m.termRecv = true
			if len(m.inflight) != 0 {
				m.fail("M-fifo", "terminator-overtakes", fmt.Sprintf("terminator received while %d buffers are still unreceived", len(m.inflight)))
			}
			if !m.termSent {
				m.fail("M-fifo", "terminator-unsent", "terminator received but never sent")
			}
			return
		}
		if len(m.inflight) == 0 {
			m.fail("M-fifo", "receive-unsent", "consumer received a buffer that was never sent (repeat)")
			return
		}
		b := m.inflight[0]
		m.inflight = m.inflight[1:]
		m.recv++
		if m.lastCRecv == 0 {
			// stage 2 proper: the received element is observable
			slot, _, length := simdjson.SimHeld(t.H)
			if slot != b.slot || length != b.length {
				m.fail("M-fifo", "order", fmt.Sprintf("consumer received slot %d/len %d, expected buffer #%d = slot %d/len %d", slot, length, b.seq, b.slot, b.length))
			} else if d := simdjson.SimSlotDigest(t.H, slot, length); d != b.digest {
				m.fail("M-fifo", "overwritten-in-flight", fmt.Sprintf("buffer #%d (slot %d) changed between send and receive", b.seq, b.slot))
			}
		}
		m.held = &b
	case simdjson.SimCDone:
		m.held = nil
	}
}

// ---- one scheduled execution ------------------------------------------------------------------

type parseOutcome struct {
	ok      bool
	errText string
	tapeH   uint64
	strH    uint64
	tapeLen int
	pj      *simdjson.ParsedJson
	panicV  *WalkPanic
}

func outcomeOf(pj *simdjson.ParsedJson, err error) parseOutcome {
	o := parseOutcome{ok: err == nil && pj != nil, pj: pj}
	if err != nil {
		o.errText = err.Error()
	}
	if o.ok {
		o.tapeH = hashU64s(pj.Tape)
		o.tapeLen = len(pj.Tape)
		if pj.Strings != nil {
			o.strH = hashBytes(pj.Strings.B)
		}
	}
	return o
}

// pipeExec runs the given parses (each reusing the previous successful result if reuse is set) inside one
// bubble under policy pol. It returns one outcome per parse and whether the run got stuck.
func pipeExec(r *Run, docs [][]byte, cfgs []parseCfg, reuse bool, pol *pipePolicy, polName string) (outs []parseOutcome, stuck bool) {
	return pipeExecJudge(r, docs, cfgs, reuse, pol, polName, nil)
}

// pipeExecJudge is pipeExec with a callback invoked on the calling goroutine right after each parse,
// while that parse's result has not yet been reused by the next one.
func pipeExecJudge(r *Run, docs [][]byte, cfgs []parseCfg, reuse bool, pol *pipePolicy, polName string, after func(i int, o parseOutcome)) (outs []parseOutcome, stuck bool) {
	totalLen := 0
	for _, d := range docs {
		totalLen += len(d)
	}
	bound := 6*(totalLen/64+8) + 64
	stuck = schedExec(r, bound, pol, polName, func(newCall func()) {
		var prev *simdjson.ParsedJson
		for i, d := range docs {
			var o parseOutcome
			err := safely(func() error {
				var ru *simdjson.ParsedJson
				if reuse {
					ru = prev
				}
				pj, perr := doParse(d, ru, cfgs[i])
				o = outcomeOf(pj, perr)
				return nil
			})
			if wp, ok := err.(*WalkPanic); ok {
				o.panicV = wp
			}
			if o.ok {
				prev = o.pj
			}
			if after != nil {
				after(i, o)
			}
			outs = append(outs, o)
			newCall()
		}
	})
	return
}

// schedParkCodecs makes schedExec also park the pool-tenancy hooks of the serializer's codec goroutines (owner "D").
var schedParkCodecs = false

// schedExec runs body as the calling goroutine of one or more library calls inside one bubble; every
// pipeline hook parks and pol decides who proceeds. body must call newCall() between two library calls
// (hand-off state starts over, the ring is reused). Returns true if the run got stuck or was abandoned.
func schedExec(r *Run, bound int, pol *pipePolicy, polName string, body func(newCall func())) (stuck bool) {
	mon := newRingMonitor(r)
	steps := 0
	fullSeen, emptySeen, maxLag := 0, 0, 0
	leak, harness := runBubble(r.T, func(t *testing.T) {
		s := &Sched{classify: func(ev simdjson.SimEvent, h simdjson.SimHandle, arg int) (bool, string) {
			switch ev {
			case simdjson.SimPAcquire, simdjson.SimPSend, simdjson.SimPDone:
				return true, "P"
			case simdjson.SimCRecv, simdjson.SimCReceived, simdjson.SimCStart, simdjson.SimCDone:
				return true, "C"
			case simdjson.SimPoolGet, simdjson.SimPoolPutBefore, simdjson.SimPoolPutAfter:
				// codec goroutines of Serialize/Deserialize: when they proceed is a scheduling decision too
				return schedParkCodecs, "D"
			}
			return false, ""
		}}
		curSched.Store(s)
		defer curSched.Store(nil)
		newCall := func() {
			if mon.maxLag > maxLag {
				maxLag = mon.maxLag
			}
			if len(mon.inflight) > 0 || (mon.termSent && !mon.termRecv) {
				r.stat("probe_residue_in_channel_at_next_call", 1)
			}
			*mon = *newRingMonitor(r)
		}
		onParseCall = newCall
		defer func() { onParseCall = nil }()
		callerDone := false
		var bodyPanic any
		go func() {
			defer func() {
				if rec := recover(); rec != nil {
					bodyPanic = rec
				}
				callerDone = true
			}()
			body(newCall)
		}()
		for {
			syncWait()
			toks := s.Snapshot()
			for _, tk := range toks {
				if !tk.seen {
					tk.seen = true
					mon.observe(tk)
				}
			}
			if r.failed() && !callerDone {
				stuck = true
				s.ReleaseAll()
				// let things wind down if they can
				for k := 0; k < 256 && !callerDone; k++ {
					syncWait()
					if s.ReleaseAll() == 0 && !callerDone {
						break
					}
				}
				return
			}
			if callerDone {
				if bodyPanic != nil {
					panic(bodyPanic)
				}
				if len(toks) != 0 {
					r.violate("M-leak", "hook-after-return", fmt.Sprintf("library goroutine still at %v after the call returned", toks[0]))
					s.ReleaseAll()
				}
				return
			}
			// abstract state
			_, _, _, chanLen := simdjson.SimRing(mon.h)
			pSt, cSt := "blocked", "blocked"
			for _, tk := range toks {
				if tk.Owner == "P" {
					pSt = tk.Name
				} else {
					cSt = tk.Name
				}
			}
			r.state(fmt.Sprintf("chan=%d P=%s C=%s", chanLen, pSt, cSt))
			if pSt == "blocked" && mon.h.Valid() {
				fullSeen++
			}
			if cSt == "blocked" {
				emptySeen++
			}
			if len(toks) == 0 {
				// the body may be in a (fake-clock) sleep to let stragglers settle: advance time once before judging
				time.Sleep(5 * time.Millisecond)
				syncWait()
				if callerDone || len(s.Snapshot()) > 0 {
					continue
				}
				stuck = true
				r.violate("M-term", "deadlock", fmt.Sprintf("no goroutine can proceed and the call has not returned (step %d, sent %d, received %d, chan %d, policy %s)", steps, mon.sent, mon.recv, chanLen, polName))
				return
			}
			if steps > bound {
				stuck = true
				r.violate("M-term", "livelock", fmt.Sprintf("step bound %d exceeded", bound))
				s.ReleaseAll()
				return
			}
			k := pol.choose(r.C, toks, steps)
			r.trace("%d %v", steps, toks[k])
			// indistinguishable tokens (same owner, event, argument) are released together
			for _, tk := range toks {
				if tk != toks[k] && tk.Owner == toks[k].Owner && tk.Ev == toks[k].Ev && tk.Arg == toks[k].Arg {
					s.Release(tk)
				}
			}
			s.Release(toks[k])
			steps++
		}
	})
	r.Res.Steps += steps
	r.stat("ring_full_seen", fullSeen)
	r.stat("ring_empty_seen", emptySeen)
	if maxLag >= 14 || mon.maxLag >= 14 {
		r.stat("lag_ge_14", 1)
	}
	if harness != "" {
		r.Res.Harness = harness
	}
	if leak != "" && !stuck {
		r.violate("M-leak", "goroutine-left", "goroutines were still blocked after the call returned: "+leak)
	}
	return
}

// ---- the engine --------------------------------------------------------------------------------

var pipeFams = []int{FamMixed, FamDenseArrays, FamDenseObjects, FamZeros, FamStrings, FamNumbers, FamWide, FamMixed, FamKeyed}

// genPipeDoc draws a document for E1: size class, family, valid or defective.
func genPipeDoc(r *Run, nd bool) (doc []byte, desc string) {
	c := r.C
	var target int
	maxBig := 1 << 20
	if r.thorough() {
		maxBig = 4 << 20
	}
	switch c.Pick("sizeclass", 2, 5, 4, 2, 1) {
	case 0: // around the sync/async threshold
		target = 8192 + c.Intn("thr", 9) - 4
	case 1:
		target = 9000 + c.Intn("sz", 40000)
	case 2:
		target = 50000 + c.Intn("sz", 200000)
	case 3:
		target = 250000 + c.Intn("sz", maxBig-250000)
	case 4:
		target = 2 + c.Intn("sz", 8000)
	}
	var d Doc
	if nd {
		// several lines, some big
		var buf bytes.Buffer
		lines := 1 + c.Intn("ndlines", 6)
		per := target / lines
		for i := 0; i < lines; i++ {
			ld := GenBulkDoc(c, per, pipeFams)
			buf.Write(bytes.ReplaceAll(ld.B, []byte{'\n'}, []byte{' '}))
			switch c.Intn("ndsep", 4) {
			case 0:
				buf.WriteString("\n")
			case 1:
				buf.WriteString("\r\n")
			case 2:
				buf.WriteString("\n\n \n")
			case 3:
				buf.WriteString(" \n")
			}
			if i == 0 {
				d.Sites = ld.Sites
			}
		}
		d.B = buf.Bytes()
		desc = fmt.Sprintf("nd lines=%d size=%d", lines, len(d.B))
	} else {
		d = GenBulkDoc(c, target, pipeFams)
		desc = fmt.Sprintf("%s size=%d", famNames[d.Fam], len(d.B))
	}
	doc = d.B
	if !nd && c.Intn("edgews", 5) == 0 {
		lead := []string{" ", "\n", "\t \r\n", "    "}[c.Intn("edgelead", 4)]
		doc = append(append([]byte(lead), doc...), []string{"", "\n", " \r\n"}[c.Intn("edgetrail", 3)]...)
		for i := range d.Sites {
			d.Sites[i].off += len(lead)
		}
		d.B = doc
	}
	if nd && c.Intn("newlineruns", 8) == 0 {
		doc, desc = genNewlineRuns(c)
		return
	}
	if !nd && c.Intn("handover", 12) == 0 {
		if hd, hdesc, ok := genHandoverDefect(r); ok {
			return hd, hdesc
		}
	}
	if !nd && c.Intn("emptybuffer", 14) == 0 {
		// dense structurals, then a long token holding no structural: a later index buffer comes up empty
		n := 8300 + c.Intn("ebprefix", 40000)
		var b bytes.Buffer
		b.WriteByte('[')
		for b.Len() < n {
			b.WriteString([]string{"[],", "{},", "0,", "[[]],"}[c.Intn("ebp", 4)])
		}
		b.WriteByte('"')
		b.Write(bytes.Repeat([]byte{'a'}, 1+c.Intn("ebtail", 3000)))
		if c.Intn("ebclose", 2) == 0 {
			b.WriteString("\"]")
		}
		return append([]byte(nil), b.Bytes()...), fmt.Sprintf("dense-then-long-token size=%d", b.Len())
	}
	if !nd && c.Intn("quietstretch", 12) == 0 {
		// dense content, then a long stretch without any structural character (a huge string or white space), then
		// dense content again: stage 1 crosses the stretch while earlier buffers are still unconsumed
		var b bytes.Buffer
		item := func() { b.WriteString([]string{"[],", "{},", "0,", "[[]],", "\"a\",", " 1 ,"}[c.Intn("qsi", 6)]) }
		b.WriteByte('[')
		for pre := 15000 + c.Intn("qspre", 60000); b.Len() < pre; {
			item()
		}
		quiet := 280000 + c.Intn("qslen", 500000)
		if r.thorough() {
			quiet = 280000 + c.Intn("qslenT", 2500000)
		}
		if c.Intn("qskind", 3) == 0 {
			b.Write(bytes.Repeat([]byte{' '}, quiet))
		} else {
			b.WriteByte('"')
			b.Write(bytes.Repeat([]byte("ab"), quiet/2))
			b.WriteString("\",")
		}
		for post := b.Len() + 30000 + c.Intn("qspost", 80000); b.Len() < post; {
			item()
		}
		b.WriteString("0]")
		return append([]byte(nil), b.Bytes()...), fmt.Sprintf("quiet-stretch size=%d (quiet %d)", b.Len(), quiet)
	}
	if c.Intn("defect", 3) == 0 {
		kind := c.Intn("defkind", defCount)
		pos := c.Intn("defpos", 4)
		doc = ApplyDefect(c, d, kind, pos)
		desc += fmt.Sprintf(" defect=%s@%d", defNames[kind], pos)
		if c.Intn("defect2", 4) == 0 && len(doc) > 64 {
			// a second, independent defect of the kind stage 1 finds (in a string near the end): both stages have
			// something to report, which one the caller hears about must not depend on who was faster
			tail := []string{"\"a\x01b\"", "\"unterminated", "\"\x1f\""}[c.Intn("defect2kind", 3)]
			at := len(doc) - 1 - c.Intn("defect2at", min(len(doc)-1, 40))
			doc = append(append(append([]byte(nil), doc[:at]...), tail...), doc[at:]...)
			desc += " +ctrl-near-end"
		}
	}
	return
}

// genHandoverDefect: a defect placed exactly where stage 1 hands an index buffer over. The hand-over points are not
// computed from the library's constants: a valid base document of a simple family (numbers, commas, white space) is parsed
// once with a tap on the PSend hook, which reports how many indexes each buffer carried; the harness counts the
// family's structurals itself and so learns the byte offset at which each buffer ended. Around a drawn hand-over a
// separator is deleted (the tail moves up by one byte), blanked, doubled, or a value is inserted without one - whether the
// result is valid is the reference parser's business, as for every other document.
func genHandoverDefect(r *Run) ([]byte, string, bool) {
	c := r.C
	var b bytes.Buffer
	b.WriteByte('[')
	n := 9000 + c.Intn("hosz", 60000)
	for b.Len() < n {
		b.WriteString([]string{"0,", "0 ,", "0  ,", "12,", "7 ,", "1,", "3   ,", "\"a\",", "\"b\" ,", "true,", "null ,"}[c.Intn("hoitem", 11)])
	}
	b.WriteString("0]")
	base := append([]byte(nil), b.Bytes()...)
	// observe the buffer sizes of the base document
	var lens []int
	setTap(func(ev simdjson.SimEvent, h simdjson.SimHandle, arg int) {
		if ev == simdjson.SimPSend && arg >= 0 {
			lens = append(lens, arg)
		}
	})
	_, perr := simdjson.Parse(append([]byte(nil), base...), nil)
	setTap(nil)
	if perr != nil || len(lens) < 2 {
		return nil, "", false
	}
	// structural positions of this family: brackets, commas, and the first byte of every scalar token
	var st []int
	inStr := false
	for i, ch := range base {
		switch {
		case ch == '"':
			if !inStr {
				st = append(st, i)
			}
			inStr = !inStr
		case inStr:
		case ch == '[' || ch == ']' || ch == ',':
			st = append(st, i)
		case ch != ' ' && (i == 0 || base[i-1] == ' ' || base[i-1] == ',' || base[i-1] == '['):
			st = append(st, i)
		}
	}
	total := 0
	for _, l := range lens {
		total += l
	}
	if total != len(st) {
		return nil, "", false // the harness's count of this family's structurals does not match what was sent: leave it
	}
	k := c.Intn("hobuf", len(lens)-1)
	cum := 0
	for i := 0; i <= k; i++ {
		cum += lens[i]
	}
	last := st[cum-1] // last index the k-th buffer carried
	// the separators around the hand-over
	nextComma := bytes.IndexByte(base[last:], ',')
	if nextComma < 0 {
		return nil, "", false
	}
	nextComma += last
	out := append([]byte(nil), base...)
	how := ""
	switch c.Intn("hodefect", 6) {
	case 0:
		out = append(out[:nextComma], out[nextComma+1:]...)
		how = "separator after the hand-over deleted"
	case 1:
		out[nextComma] = ' '
		how = "separator after the hand-over blanked"
	case 2:
		out = append(out[:nextComma], append([]byte(",,"), out[nextComma+1:]...)...)
		how = "separator after the hand-over doubled"
	case 3:
		if pc := bytes.LastIndexByte(base[:last], ','); pc > 0 {
			out = append(out[:pc], out[pc+1:]...)
			how = "separator before the hand-over deleted"
		}
	case 4:
		ins := []string{" 7", "7", " \"x\"", "x", "\x00"}[c.Intn("hoins", 5)]
		out = append(out[:nextComma], append([]byte(ins), out[nextComma:]...)...)
		how = "token inserted in front of the separator after the hand-over"
	case 5:
		// nothing changed: the valid base document itself (alignment family)
		how = "unchanged"
	}
	if how == "" {
		return nil, "", false
	}
	r.stat("handover_targeted_documents", 1)
	return out, fmt.Sprintf("handover-targeted size=%d buffers=%d at buffer %d (offset %d): %s", len(out), len(lens), k, last, how), true
}

// genNewlineRuns draws an NDJSON input whose documents are separated by runs of line feeds - in that mode every line
// feed is a structural of its own, so long runs fill whole index buffers and buffer boundaries fall inside them - and
// whose last line may be cut short (stage 1 then rejects its final buffer while stage 2 is among the blank lines).
func genNewlineRuns(c *Chooser) ([]byte, string) {
	var b bytes.Buffer
	lines := 2 + c.Intn("nrlines", 40)
	total := 0
	for i := 0; i < lines; i++ {
		b.WriteString([]string{"[]", "{}", "[[]]", "[1,2]", `{"a":1}`, `["x"]`}[c.Intn("nrdoc", 6)])
		run := 1
		switch c.Intn("nrrun", 5) {
		case 0:
			run = 1 + c.Intn("nrshort", 4)
		case 1:
			run = 1400 + c.Intn("nrbuf", 20) // about one index buffer
		case 2:
			run = 60 + c.Intn("nrblock", 10) // about one 64-byte block
		case 3:
			run = 1 + c.Intn("nrlong", 12000)
		}
		total += run
		if c.Intn("nrcrlf", 6) == 0 {
			b.WriteString(strings.Repeat("\r\n", run))
		} else {
			b.WriteString(strings.Repeat("\n", run))
		}
	}
	tail := []string{"", "", "[", `{"a":1`, `"`, `["x`, "[]", "{"}[c.Intn("nrtail", 8)]
	b.WriteString(tail)
	return append([]byte(nil), b.Bytes()...), fmt.Sprintf("nd newline-runs lines=%d linefeeds=%d tail=%q size=%d", lines, total, tail, b.Len())
}

// judgeOutcome compares one outcome with the reference verdict; full selects the complete battery.
func judgeOutcome(r *Run, doc []byte, cfg parseCfg, o parseOutcome, ref RefResult, what string, full bool) {
	if o.panicV != nil {
		r.violate("panic", panicSig(o.panicV), fmt.Sprintf("%s: %v", what, o.panicV))
		return
	}
	if o.ok && o.pj != nil {
		// whatever the reference says about the input: an accepted parse exports a well-formed tape
		if err := CheckTape(o.pj, false); err != nil {
			r.violate("tape", "invariant", fmt.Sprintf("%s: %v", what, err))
			return
		}
	}
	if ref.Ambiguous {
		r.stat("ambiguous_skipped", 1)
		return
	}
	if o.ok != ref.OK {
		if ref.OK {
			r.violate("outcome", "valid-rejected", fmt.Sprintf("%s: valid document rejected: %s", what, o.errText))
		} else {
			r.violate("outcome", "invalid-accepted", fmt.Sprintf("%s: invalid document accepted (reference: %s at %d)", what, ref.Err, ref.ErrOff))
		}
		return
	}
	if !o.ok {
		return
	}
	if err := CheckTape(o.pj, false); err != nil {
		r.violate("tape", "invariant", fmt.Sprintf("%s: %v", what, err))
		return
	}
	got, err := WalkInto(o.pj)
	if err != nil {
		r.violate("W-into", "error", fmt.Sprintf("%s: %v", what, err))
		return
	}
	if d := DiffRoots(ref.Roots, got, EqExact); d != "" {
		r.violate("W-into", "mismatch", fmt.Sprintf("%s: %s", what, d))
		return
	}
	if full {
		got, err = WalkAdvance(o.pj)
		if err != nil {
			r.violate("W-adv", "error", fmt.Sprintf("%s: %v", what, err))
			return
		}
		if d := DiffRoots(ref.Roots, got, EqExact); d != "" {
			r.violate("W-adv", "mismatch", fmt.Sprintf("%s: %s", what, d))
		}
	}
}

func refFor(doc []byte, nd bool) RefResult {
	if nd {
		return RefParseND(doc)
	}
	return RefParse(doc)
}

// RunPipe is one run of E1: a drawn document pair executed free-running and under K drawn schedules.
func RunPipe(r *Run) {
	c := r.C
	cfg := drawCfg(c, true)
	doc, desc := genPipeDoc(r, cfg.ND)
	docs := [][]byte{doc}
	cfgs := []parseCfg{cfg}
	reuse := false
	if c.Intn("second", 2) == 1 {
		// a second parse reusing the first result's object: residue in the ring/channel would show here
		cfg2 := drawCfg(c, true)
		doc2, desc2 := genPipeDoc(r, cfg2.ND)
		docs = append(docs, doc2)
		cfgs = append(cfgs, cfg2)
		// (one time in four every call passes nil: what a call leaves behind then reaches the next one only through
		// whatever the package keeps behind the API)
		reuse = c.Intn("chainreuse", 4) != 0
		desc += fmt.Sprintf(" ; then(reuse=%v) ", reuse) + desc2
		if c.Intn("third", 3) == 0 {
			// a third parse on the same object: when the second one failed, it is handed the first result again -
			// the object a failed call was given stays the caller's and stays reusable
			cfg3 := drawCfg(c, true)
			doc3, desc3 := genPipeDoc(r, cfg3.ND)
			docs = append(docs, doc3)
			cfgs = append(cfgs, cfg3)
			desc += " ; then(reuse) " + desc3
		}
	}
	K := 3
	if r.thorough() {
		K = 6
	}
	r.Res.Sample["docs"] = desc
	r.Res.Sample["cfg"] = fmt.Sprint(cfgs)
	for i, d := range docs {
		r.Res.Inputs[fmt.Sprintf("doc%d", i)] = b64(d)
	}

	refs := make([]RefResult, len(docs))
	for i, d := range docs {
		refs[i] = refFor(d, cfgs[i].ND)
	}

	async := false
	for _, d := range docs {
		if len(bytes.TrimSpace(d)) > 8<<10 {
			async = true
		}
	}
	r.Res.NonTrivial = async
	// K executions under drawn schedules; the first one is judged against the reference model in full
	var first []parseOutcome
	for k := 0; k < K; k++ {
		kind := c.Intn("policy", polCount)
		pol := newPipePolicy(c, kind, len(doc)/300+8)
		r.stat("policy_"+polNames[kind], 1)
		// the property quantifies over GOMAXPROCS 1..16: the schedule is ours, but the library may look at the setting
		procs := []int{1, 2, 4, 16}[c.Intn("gomaxprocs", 4)]
		oldProcs := runtime.GOMAXPROCS(procs)
		defer runtime.GOMAXPROCS(oldProcs)
		r.trace("schedule %d policy %s GOMAXPROCS %d", k, polNames[kind], procs)
		var after func(i int, o parseOutcome)
		if k == 0 {
			after = func(i int, o parseOutcome) {
				judgeOutcome(r, docs[i], cfgs[i], o, refs[i], fmt.Sprintf("parse #%d (%s) under policy %s", i, cfgs[i], polNames[kind]), len(docs[i]) <= 1<<18)
			}
		}
		outs, stuck := pipeExecJudge(r, docs, cfgs, reuse, pol, polNames[kind], after)
		r.Res.Evals++
		if r.failed() || stuck || r.Res.Harness != "" {
			return
		}
		if len(outs) != len(docs) {
			r.violate("M-term", "incomplete", fmt.Sprintf("only %d of %d calls returned", len(outs), len(docs)))
			return
		}
		for i := range outs {
			outs[i].pj = nil
		}
		if k == 0 {
			first = outs
			continue
		}
		if !compareOutcomes(r, first, outs, refs, cfgs, "policy "+polNames[kind], "the first explored schedule") {
			return
		}
	}
	// free-running execution (real scheduler, no hook parks): same outcome expected. It runs last, after the
	// controlled schedules have shown that the stages terminate; the sync path is guarded by the full/empty channel tap.
	var free []parseOutcome
	{
		var prev *simdjson.ParsedJson
		for i, d := range docs {
			var o parseOutcome
			setTap(syncDeadlockTap())
			err := safely(func() error {
				var ru *simdjson.ParsedJson
				if reuse {
					ru = prev
				}
				in := append([]byte(nil), d...)
				pj, perr := doParse(in, ru, cfgs[i])
				o = outcomeOf(pj, perr)
				return nil
			})
			setTap(nil)
			if wp, ok := err.(*WalkPanic); ok {
				if ds, isDL := wp.Val.(deadlockSentinel); isDL {
					r.violate("M-term", "deadlock-sync", fmt.Sprintf("free-running parse #%d (%s): %s", i, cfgs[i], ds.detail))
					return
				}
				o.panicV = wp
			}
			if o.ok {
				prev = o.pj
			}
			o.pj = nil
			free = append(free, o)
			r.Res.Evals++
		}
	}
	compareOutcomes(r, first, free, refs, cfgs, "the free-running execution", "the first explored schedule")
}

// compareOutcomes checks that two executions of the same calls had the same outcome.
func compareOutcomes(r *Run, a, b []parseOutcome, refs []RefResult, cfgs []parseCfg, whatB, whatA string) bool {
	for i := range b {
		o, f := b[i], a[i]
		what := fmt.Sprintf("parse #%d (%s) in %s", i, cfgs[i], whatB)
		if o.panicV != nil {
			r.violate("panic", panicSig(o.panicV), fmt.Sprintf("%s: %v", what, o.panicV))
			return false
		}
		if refs[i].Ambiguous {
			continue
		}
		if o.ok != f.ok {
			r.violate("schedule-dependent", "outcome", fmt.Sprintf("%s: ok=%v (%s) but in %s ok=%v (%s)", what, o.ok, o.errText, whatA, f.ok, f.errText))
			return false
		}
		if o.ok && (o.tapeH != f.tapeH || o.strH != f.strH || o.tapeLen != f.tapeLen) {
			r.violate("schedule-dependent", "tape", fmt.Sprintf("%s: tape/strings differ from %s (tape len %d vs %d)", what, whatA, o.tapeLen, f.tapeLen))
			return false
		}
		if o.errText != f.errText {
			// "the outcome (error, or the exact document) is the same under every interleaving"
			r.violate("schedule-dependent", "error", fmt.Sprintf("%s: error %q but in %s %q", what, o.errText, whatA, f.errText))
			return false
		}
	}
	return true
}

func b64(b []byte) string {
	if *flagDump != "" {
		os.MkdirAll(*flagDump, 0o755)
		os.WriteFile(fmt.Sprintf("%s/input-%x.bin", *flagDump, hashBytes(b)), b, 0o644)
	}
	if len(b) > 1<<16 {
		return fmt.Sprintf("(%d bytes, fnv %x; regenerated from the tape)", len(b), hashBytes(b))
	}
	return base64.StdEncoding.EncodeToString(b)
}

// RunPipeRace is the -race sub-mode of C07: the same drawn documents parsed free-running (no hook parks)
// with a drawn GOMAXPROCS, so that the race detector judges the memory the ring monitors do not model.
// Outcomes are still compared with the reference model.
func RunPipeRace(r *Run) {
	c := r.C
	setKernel(c.Intn("avx512", 2) == 1)
	kernelSwitching = false
	defer func() { kernelSwitching = true }()
	procs := []int{1, 2, 3, 4, 8, 16}[c.Intn("gomaxprocs", 6)]
	old := runtime.GOMAXPROCS(procs)
	defer runtime.GOMAXPROCS(old)
	var prev *simdjson.ParsedJson
	n := 1 + c.Intn("ncalls", 3)
	for i := 0; i < n && !r.failed(); i++ {
		cfg := drawCfg(c, true)
		cfg.AVX512 = hostAVX512
		doc, desc := genPipeDoc(r, cfg.ND)
		ref := refFor(doc, cfg.ND)
		var o parseOutcome
		setTap(syncDeadlockTap())
		err := safely(func() error {
			defer func() { setTap(nil) }()
			var ru *simdjson.ParsedJson
			if c.Intn("reuse", 2) == 1 {
				ru = prev
			}
			pj, perr := doParse(append([]byte(nil), doc...), ru, cfg)
			o = outcomeOf(pj, perr)
			return nil
		})
		if wp, ok := err.(*WalkPanic); ok {
			if ds, isDL := wp.Val.(deadlockSentinel); isDL {
				r.violate("M-term", "deadlock-sync", fmt.Sprintf("free-running parse #%d (%s): %s", i, cfg, ds.detail))
				return
			}
			o.panicV = wp
		}
		judgeOutcome(r, doc, cfg, o, ref, fmt.Sprintf("free-running parse #%d under -race (%s, GOMAXPROCS %d)", i, cfg, procs), len(doc) <= 1<<17)
		if o.ok {
			prev = o.pj
		}
		r.Res.Evals++
		r.Res.Sample[fmt.Sprintf("doc%d", i)] = desc
		r.fp.u64(hashBytes(doc))
		if len(doc) > 8<<10 {
			r.Res.NonTrivial = true
		}
	}
}
