package sim

import (
	"bytes"
	"errors"
	"fmt"
	"io"
	"runtime"
	"runtime/debug"
	"testing"

	simdjson "github.com/minio/simdjson-go"
)

// E2 "stream": the real ParseNDStream inside a bubble. Stubs: the io.Reader (every Read parks and the
// scheduler answers it with a drawn fragment or fault), the consumer of the result channel, the feeder
// of the reuse channel. Chunk parsers park at NDChunkStart/NDChunkParsed so their relative completion
// order is a scheduling decision.

type readResult struct {
	n   int
	err error
}

type simReader struct {
	s    *Sched
	data []byte
	off  int
}

func (sr *simReader) Read(p []byte) (int, error) {
	tok := &Token{Owner: "R", Name: "Read", Arg: len(p)}
	sr.s.Park(tok)
	res := tok.data.(readResult)
	n := res.n
	if n > len(p) {
		n = len(p)
	}
	if n > len(sr.data)-sr.off {
		n = len(sr.data) - sr.off
	}
	copy(p, sr.data[sr.off:sr.off+n])
	sr.off += n
	return n, res.err
}

type errInjected struct{ id int }

func (e *errInjected) Error() string { return fmt.Sprintf("injected reader fault #%d", e.id) }

type delivered struct {
	roots   []*MV
	err     error
	tapeErr error
	walkErr error
	held    *simdjson.ParsedJson
}

// genStream draws an NDJSON stream; returns the bytes and the expected documents.
func genStream(r *Run) (stream []byte, docs []*MV, desc string) {
	c := r.C
	var buf bytes.Buffer
	nl := c.Pick("slines", 1, 3, 6, 4, 1)
	n := 0
	switch nl {
	case 0:
		n = 0
	case 1:
		n = 1 + c.Intn("sl1", 2)
	case 2:
		n = 2 + c.Intn("sl2", 8)
	case 3:
		n = 8 + c.Intn("sl3", 40)
	case 4:
		n = 40 + c.Intn("sl4", 360)
	}
	blank := func() {
		k := 1 + c.Intn("blanks", 3)
		for i := 0; i < k; i++ {
			buf.WriteString([]string{"\n", "\r\n", " \n", "\t \n", "  \r\n"}[c.Intn("blankk", 5)])
		}
	}
	if c.Intn("leadblank", 5) == 0 {
		blank()
	}
	ndocs := 0
	for i := 0; i < n; i++ {
		var line []byte
		if c.Intn("bigline", 40) == 39 {
			d := GenBulkDoc(c, 8200+c.Intn("bigsz", 30000), pipeFams)
			line = bytes.ReplaceAll(d.B, []byte{'\n'}, []byte{' '})
		} else {
			d := GenDoc(c, DocSpec{Family: []int{FamMixed, FamKeyed, FamMixed, FamStrings}[c.Intn("sfam", 4)], Target: 2 + c.Intn("ssz", 120), WS: c.Pick("sws", 6, 2, 1), OneLine: true, MaxDepth: 3, StrMax: 30})
			line = d.B
		}
		buf.Write(line)
		ndocs++
		last := i == n-1
		if last && c.Intn("nofinalnl", 3) == 0 {
			break
		}
		buf.WriteString([]string{"\n", "\n", "\r\n", " \n"}[c.Intn("eol", 4)])
		if c.Intn("midblank", 6) == 0 {
			blank()
		}
	}
	if n > 0 && c.Intn("trailblank", 5) == 0 {
		if buf.Len() > 0 && buf.Bytes()[buf.Len()-1] != '\n' {
			buf.WriteByte('\n')
		}
		blank()
	}
	stream = buf.Bytes()
	if ndocs > 0 {
		ref := RefParseND(stream)
		if !ref.OK || ref.Ambiguous {
			panic(fmt.Sprintf("harness: generated stream rejected by the reference parser: %s at %d", ref.Err, ref.ErrOff))
		}
		docs = ref.Roots
	}
	desc = fmt.Sprintf("lines=%d bytes=%d", n, len(stream))
	return
}

const (
	fragOne = iota
	fragTwo
	fragThree
	fragLine
	fragLineMinus
	fragLinePlus
	fragGeo
	fragAll
	fragMixed
	fragCount
	// fragFewThenAll (huge streams only, not drawn by Intn(fragCount)): a few line-sized reads, then as much as the
	// caller's buffer takes per read - small chunks and 10 MiB chunks in one stream
	fragFewThenAll = fragCount
)

var fragNames = [...]string{"1B", "2B", "3B", "line", "line-1", "line+1", "geometric", "everything", "mixed", "few-lines-then-everything"}

func drawFragment(c *Chooser, style int, data []byte, off int) int {
	rest := len(data) - off
	if rest <= 0 {
		return 0
	}
	if style == fragMixed {
		style = c.Intn("fragmix", fragMixed)
	}
	toNL := func() int {
		k := bytes.IndexByte(data[off:], '\n')
		if k < 0 {
			return rest
		}
		return k + 1
	}
	n := rest
	switch style {
	case fragOne:
		n = 1
	case fragTwo:
		n = 2
	case fragThree:
		n = 3
	case fragLine:
		n = toNL()
	case fragLineMinus:
		n = toNL() - 1
	case fragLinePlus:
		n = toNL() + 1
	case fragGeo:
		n = 1
		for n < rest && c.Intn("geo", 3) != 0 {
			n *= 2
		}
	case fragAll:
		n = rest
	}
	if n < 1 {
		n = 1
	}
	if n > rest {
		n = rest
	}
	return n
}

type streamCfg struct {
	gmp, capRes, reuseMode, capReuse, frag int
	faultAt                                int
	faultErr                               error
	faultWithData, eofWithData             bool
	chunkPol, consPol                      int
	zeroEvery                              bool // every other Read returns (0, nil)
	fewLines                               int  // fragFewThenAll: number of leading line-sized reads
	eagerFirst                             int  // >= 0: the first eagerFirst chunks are parsed, delivered and consumed at once, later chunk parsers are starved while the reader can read
}

// RunStream is one run of E2: one drawn stream and configuration; with a drawn probability the reader fault is
// injected at *every* byte offset of a short stream (exhaustive over offsets for that stream and configuration).
func RunStream(r *Run) {
	c := r.C
	huge := c.Intn("hugestream", map[bool]int{true: 40, false: 120}[r.thorough()]) == 0
	giant := !huge && c.Intn("giantline", map[bool]int{true: 80, false: 700}[r.thorough()]) == 0
	var stream []byte
	var want []*MV
	var desc string
	if giant {
		stream, want, desc = genGiantLineStream(r)
	} else if huge {
		stream, want, desc = genHugeStream(r)
	} else {
		stream, want, desc = genStream(r)
	}
	sc := streamCfg{faultAt: -1, eagerFirst: -1}
	if !giant && !huge && c.Intn("zerostorm", 14) == 0 {
		// a reader that makes no progress on every other call (legal: Read may return 0, nil) over a stream of many
		// short lines: well over a hundred empty reads, never two in a row
		var b bytes.Buffer
		n := 110 + c.Intn("zerostormlines", 150)
		for i := 0; i < n; i++ {
			fmt.Fprintf(&b, `{"i":%d,"s":"v%d"}`+"\n", i, i*7)
		}
		stream = b.Bytes()
		want = RefParseND(stream).Roots
		desc = fmt.Sprintf("%d short lines behind a reader that returns (0, nil) on every other call", n)
		sc.zeroEvery = true
		r.stat("zero_read_storms", 1)
	}
	r.Res.Inputs["stream"] = b64(stream)
	sc.gmp = []int{1, 2, 3, 4, 8, 16}[c.Intn("gomaxprocs", 6)]
	sc.capRes = c.Intn("capres", 17)
	sc.reuseMode = c.Intn("reusemode", 3) // 0 no channel, 1 recycle always, 2 recycle randomly
	sc.capReuse = c.Intn("capreuse", 11)
	sc.frag = c.Intn("frag", fragCount)
	if sc.zeroEvery {
		sc.frag = fragLine
	}
	if len(stream) > 4000 && sc.frag <= fragThree && !sc.zeroEvery {
		sc.frag = fragLine + c.Intn("fragbig", 5)
	}
	if huge {
		sc.frag = []int{fragAll, fragGeo, fragFewThenAll, fragFewThenAll, fragFewThenAll, fragFewThenAll}[c.Intn("fraghuge", 6)]
		sc.fewLines = 1 + c.Intn("fewlines", 5)
		if sc.frag == fragFewThenAll && sc.reuseMode == 0 && c.Intn("hugerecycle", 4) != 0 {
			// small chunks and 10 MiB chunks in one stream are most interesting when results are recycled
			sc.reuseMode = 1 + c.Intn("hugerecyclemode", 2)
		}
		r.stat("streams_above_10MiB", 1)
	}
	if giant {
		sc.frag = []int{fragGeo, fragAll, fragLine, fragLineMinus}[c.Intn("fraggiant", 4)]
	}
	// fault plan
	if c.Intn("fault", 3) == 0 {
		sc.faultAt = c.Intn("faultat", len(stream)+1)
		if c.Intn("faulterr", 2) == 0 {
			sc.faultErr = &errInjected{1}
		} else {
			sc.faultErr = io.ErrUnexpectedEOF
		}
		sc.faultWithData = c.Intn("faultdata", 2) == 1
	}
	sc.eofWithData = c.Intn("eofdata", 2) == 1
	sc.chunkPol = c.Intn("chunkpol", 3) // 0 FIFO, 1 LIFO, 2 random
	if c.Intn("eagerfirst", map[bool]int{true: 2, false: 12}[huge]) == 0 {
		// early results make the round through consumer and reuse channel while the reader is still at work and the
		// parsers of later chunks have not run: everything a recycled result puts back into circulation is live
		sc.eagerFirst = 1 + c.Intn("eagerfirstn", 3)
		if sc.reuseMode == 0 && c.Intn("eagerrecycle", 4) != 0 {
			sc.reuseMode = 1
		}
		r.stat("runs_with_early_chunks_recycled_before_later_ones_are_parsed", 1)
	}
	sc.consPol = c.Intn("conspol", 3)   // 0 eager, 1 lazy, 2 random
	if *flagMode == "kernel-avx2" {
		setKernel(false)
	} else {
		setKernel(c.Intn("avx512", 2) == 1)
	}
	limit := 48
	if r.thorough() {
		limit = 512
	}
	if sc.faultAt >= 0 && len(stream) > 0 && len(stream) <= limit && c.Intn("everyoffset", 4) == 0 {
		// reader error at every byte offset of this stream
		for k := 0; k <= len(stream) && !r.failed() && r.Res.Harness == ""; k++ {
			sc.faultAt = k
			streamExec(r, stream, want, desc, sc)
		}
		r.Res.Exhaustive = true
		r.stat("streams_with_fault_at_every_offset", 1)
		return
	}
	streamExec(r, stream, want, desc, sc)
}

// genHugeStream builds a stream above the 10 MiB chunk size by repeating a drawn block of lines.
func genHugeStream(r *Run) (stream []byte, docs []*MV, desc string) {
	block, bdocs, _ := genStream(r)
	for len(bdocs) == 0 || len(block) < 200 {
		block, bdocs, _ = genStream(r)
	}
	if block[len(block)-1] != '\n' {
		block = append(block, '\n')
	}
	target := 10<<20 + r.C.Intn("hugeextra", 2<<20)
	var buf bytes.Buffer
	n := 0
	for buf.Len() < target {
		buf.Write(block)
		n++
	}
	for i := 0; i < n; i++ {
		docs = append(docs, bdocs...)
	}
	return buf.Bytes(), docs, fmt.Sprintf("huge: %d x block of %d bytes = %d bytes", n, len(block), buf.Len())
}

// genGiantLineStream: one document longer than the 10 MiB chunk size (its line has to be completed after the first
// Read of the chunk), between a few small ones.
func genGiantLineStream(r *Run) (stream []byte, docs []*MV, desc string) {
	c := r.C
	var buf bytes.Buffer
	small := func() {
		d := GenDoc(c, DocSpec{Family: FamMixed, Target: 2 + c.Intn("ssz", 120), WS: 0, OneLine: true, MaxDepth: 3, StrMax: 30})
		buf.Write(d.B)
		buf.WriteByte('\n')
	}
	for i := 0; i < c.Intn("gpre", 3); i++ {
		small()
	}
	// the giant: an array of one repeated element (cheap to generate and to check)
	elem := GenDoc(c, DocSpec{Family: FamMixed, Target: 40 + c.Intn("gelem", 200), WS: 0, OneLine: true, MaxDepth: 3, StrMax: 30}).B
	target := 10<<20 + 1 + c.Intn("gextra", 12<<20)
	buf.WriteByte('[')
	n := 0
	start := buf.Len()
	for buf.Len()-start < target {
		if n > 0 {
			buf.WriteByte(',')
		}
		buf.Write(elem)
		n++
	}
	buf.WriteString("]\n")
	for i := 0; i < c.Intn("gpost", 3); i++ {
		small()
	}
	stream = buf.Bytes()
	ref := RefParseND(stream)
	if !ref.OK {
		panic("harness: giant-line stream rejected by the reference parser: " + ref.Err)
	}
	return stream, ref.Roots, fmt.Sprintf("giant line: %d x %d-byte element, stream %d bytes", n, len(elem), len(stream))
}

// streamExec is one simulated execution of ParseNDStream.
func streamExec(r *Run, stream []byte, want []*MV, desc string, sc streamCfg) {
	c := r.C
	gmp, capRes, reuseMode, capReuse, frag := sc.gmp, sc.capRes, sc.reuseMode, sc.capReuse, sc.frag
	faultAt, faultErr, faultWithData, eofWithData := sc.faultAt, sc.faultErr, sc.faultWithData, sc.eofWithData
	chunkPol, consPol := sc.chunkPol, sc.consPol
	r.Res.Sample["stream"] = desc
	r.Res.Sample["cfg"] = fmt.Sprintf("GOMAXPROCS=%d cap(res)=%d reuse=%d/%d frag=%s fault@%d(%v,data=%v) eofWithData=%v chunks=%d consumer=%d",
		gmp, capRes, reuseMode, capReuse, fragNames[frag], faultAt, faultErr, faultWithData, eofWithData, chunkPol, consPol)

	var hist []delivered
	closed := false
	var held []*delivered
	steps, reads, zeroReads, chunksSeen := 0, 0, 0, 0
	lastReadEmpty := false
	readerDoneStep := -1
	stuck := false
	var consPanic *WalkPanic

	oldGC := debug.SetGCPercent(-1)
	// no collection while a run is in flight (pool contents stay a function of the run), except under memory
	// pressure: every chunk owns a 10 MiB buffer, a few hundred of them must not exhaust the address-space limit
	oldLimit := debug.SetMemoryLimit(3 << 30)
	defer debug.SetMemoryLimit(oldLimit)
	oldProcs := runtime.GOMAXPROCS(gmp)
	leak, harness := runBubble(r.T, func(t *testing.T) {
		s := &Sched{classify: func(ev simdjson.SimEvent, h simdjson.SimHandle, arg int) (bool, string) {
			switch ev {
			case simdjson.SimNDChunkStart, simdjson.SimNDChunkParsed:
				return true, fmt.Sprintf("K%04d", arg)
			}
			return false, ""
		}}
		curSched.Store(s)
		defer curSched.Store(nil)
		rd := &simReader{s: s, data: stream}
		res := make(chan simdjson.Stream, capRes)
		var reuse chan *simdjson.ParsedJson
		if reuseMode != 0 {
			reuse = make(chan *simdjson.ParsedJson, capReuse)
		}
		simdjson.ParseNDStream(rd, res, reuse)
		runtime.GOMAXPROCS(1) // conc has been read; from here on one P makes pool behaviour a function of the run
		// consumer
		go func() {
			for {
				tok := &Token{Owner: "U", Name: "Recv"}
				s.Park(tok)
				recycle, _ := tok.data.(bool)
				v, ok := <-res
				if !ok {
					closed = true
					return
				}
				d := delivered{err: v.Error}
				if v.Value != nil {
					roots, werr := WalkInto(v.Value)
					d.roots, d.walkErr = roots, werr
					var wp *WalkPanic
					if errors.As(werr, &wp) {
						consPanic = wp
					}
					d.tapeErr = CheckTape(v.Value, false)
					if recycle && reuse != nil {
						select {
						case reuse <- v.Value:
						default:
						}
					} else if len(held) < 16 {
						d.held = v.Value
					}
				}
				hist = append(hist, d)
				if d.held != nil {
					held = append(held, &hist[len(hist)-1])
				}
			}
		}()
		bound := 16*(len(stream)+64) + 4096
		for {
			syncWait()
			toks := s.Snapshot()
			if closed {
				if len(toks) != 0 {
					r.violate("M-leak", "hook-after-close", fmt.Sprintf("%v still parked after the result channel was closed", toks[0]))
					s.ReleaseAll()
				}
				return
			}
			nParsers, nParsed := 0, 0
			var rTok, uTok *Token
			var kToks []*Token
			for _, tk := range toks {
				switch tk.Owner[0] {
				case 'R':
					rTok = tk
				case 'U':
					uTok = tk
				case 'K':
					kToks = append(kToks, tk)
					if tk.Ev == simdjson.SimNDChunkParsed {
						nParsed++
					} else {
						nParsers++
					}
				}
			}
			rs := "blocked"
			if rTok != nil {
				rs = "reading"
			} else if readerDoneStep >= 0 {
				rs = "done"
			}
			us := "blocked"
			if uTok != nil {
				us = "ready"
			}
			r.state(fmt.Sprintf("R=%s U=%s start=%d parsed=%d res=%d", rs, us, min(nParsers, 3), min(nParsed, 3), min(len(res), 3)))
			if len(toks) == 0 {
				stuck = true
				r.violate("M-term", "deadlock", fmt.Sprintf("no goroutine can proceed and the result channel is not closed (step %d, %d reads, delivered %d)", steps, reads, len(hist)))
				return
			}
			if steps > bound {
				stuck = true
				r.violate("M-term", "livelock", fmt.Sprintf("step bound %d exceeded", bound))
				s.ReleaseAll()
				return
			}
			// choose who proceeds
			var classes []int // 0 reader, 1 chunk parser, 2 consumer
			if rTok != nil {
				classes = append(classes, 0)
			}
			if len(kToks) > 0 {
				classes = append(classes, 1)
			}
			if uTok != nil {
				classes = append(classes, 2)
			}
			cl := classes[c.Intn("who", len(classes))]
			switch consPol {
			case 0: // eager consumer
				if uTok != nil && c.Intn("eager", 4) != 0 {
					cl = 2
				}
			case 1: // lazy consumer: only when nothing else can move, or rarely
				if cl == 2 && len(classes) > 1 && c.Intn("lazy", 8) != 0 {
					cl = classes[0]
				}
			}
			if sc.eagerFirst >= 0 {
				early := -1
				for i, k := range kToks {
					if k.Arg < sc.eagerFirst {
						early = i
						break
					}
				}
				switch {
				case uTok != nil && (len(res) > 0 || capRes == 0):
					cl = 2 // consume (and recycle) whatever has been delivered
				case early >= 0:
					cl = 1
					kToks = kToks[early : early+1]
				case rTok != nil:
					cl = 0 // later parsers wait while the reader can go on
				}
			}
			var tk *Token
			switch cl {
			case 0:
				tk = rTok
				// decide what this Read returns
				var rr readResult
				rest := len(stream) - rd.off
				limit := rest
				if faultAt >= 0 && faultAt-rd.off < limit {
					limit = faultAt - rd.off
				}
				switch {
				case faultAt >= 0 && rd.off >= faultAt:
					rr = readResult{0, faultErr}
					r.stat("fault_reader_error", 1)
					readerDoneStep = steps
				case rest == 0:
					rr = readResult{0, io.EOF}
					readerDoneStep = steps
				default:
					if sc.zeroEvery && !lastReadEmpty {
						lastReadEmpty = true
						r.stat("fault_zero_read", 1)
						rr = readResult{0, nil}
						break
					}
					lastReadEmpty = false
					if zeroReads < 2 && c.Intn("zeroread", 25) == 0 {
						zeroReads++
						r.stat("fault_zero_read", 1)
						rr = readResult{0, nil}
						break
					}
					fr := frag
					if fr == fragFewThenAll {
						fr = fragAll
						if reads-zeroReads < sc.fewLines {
							fr = fragLine
						}
					}
					n := drawFragment(c, fr, stream, rd.off)
					if n > tk.Arg {
						n = tk.Arg
					}
					if n >= limit {
						n = limit
						if faultAt >= 0 && rd.off+n >= faultAt {
							if faultWithData && n > 0 {
								rr = readResult{n, faultErr}
								r.stat("fault_reader_error_with_data", 1)
								readerDoneStep = steps
								break
							}
							if n == 0 {
								rr = readResult{0, faultErr}
								r.stat("fault_reader_error", 1)
								readerDoneStep = steps
								break
							}
						} else if rd.off+n >= len(stream) && eofWithData {
							rr = readResult{n, io.EOF}
							r.stat("eof_with_data", 1)
							readerDoneStep = steps
							break
						}
					}
					rr = readResult{n, nil}
				}
				tk.data = rr
				reads++
				r.trace("%d R.Read -> (%d,%v)", steps, rr.n, rr.err)
			case 1:
				switch chunkPol {
				case 0:
					tk = kToks[0]
				case 1:
					tk = kToks[len(kToks)-1]
				default:
					tk = kToks[c.Intn("whichk", len(kToks))]
				}
				if tk.Ev == simdjson.SimNDChunkStart && tk.Arg+1 > chunksSeen {
					chunksSeen = tk.Arg + 1
				}
				r.trace("%d %v", steps, tk)
			case 2:
				tk = uTok
				rec := false
				switch reuseMode {
				case 1:
					rec = true
				case 2:
					rec = c.Intn("recycle", 2) == 1
				}
				tk.data = rec
				r.trace("%d U.Recv recycle=%v", steps, rec)
			}
			s.Release(tk)
			steps++
		}
	})
	runtime.GOMAXPROCS(oldProcs)
	debug.SetGCPercent(oldGC)
	r.Res.Steps += steps
	r.Res.Evals++
	r.stat("reads", reads)
	r.stat("chunks", chunksSeen)
	r.Res.NonTrivial = reads >= 3 || faultAt >= 0
	if harness != "" {
		r.Res.Harness = harness
		return
	}
	if consPanic != nil {
		r.violate("panic", panicSig(consPanic), fmt.Sprintf("traversing a delivered value panicked: %v", consPanic))
		return
	}
	if r.failed() || stuck {
		return
	}
	if leak != "" {
		r.violate("M-leak", "goroutine-left", "goroutines were still blocked after the result channel was closed: "+leak)
		return
	}
	// ---- oracles over the recorded history ----
	var got []*MV
	valueAfterErr := false
	firstErr := -1
	var errs []error
	for i, d := range hist {
		if d.err != nil {
			errs = append(errs, d.err)
			if firstErr < 0 {
				firstErr = i
			}
			continue
		}
		if d.tapeErr != nil {
			r.violate("tape", "stream-value", fmt.Sprintf("value #%d delivered by ParseNDStream: %v", i, d.tapeErr))
			return
		}
		if d.walkErr != nil {
			walkerFail(r, "W-into", fmt.Sprintf("value #%d delivered by ParseNDStream", i), d.walkErr)
			return
		}
		if firstErr < 0 {
			got = append(got, d.roots...)
		} else {
			valueAfterErr = true
		}
	}
	ctx := fmt.Sprintf("[%s; %s]", desc, r.Res.Sample["cfg"])
	if faultAt < 0 {
		// well-formed stream, reader never fails: all documents in order, then exactly io.EOF, then close
		if firstErr < 0 {
			r.violate("history", "no-eof", "channel closed without an io.EOF error "+ctx)
			return
		}
		if !errors.Is(hist[firstErr].err, io.EOF) {
			cls := "other"
			if isParseErr(hist[firstErr].err) {
				cls = "parse-error"
			}
			r.violate("history", "eof-replaced-by-"+cls, fmt.Sprintf("first error is %q instead of io.EOF after %d of %d documents %s", hist[firstErr].err, len(got), len(want), ctx))
			return
		}
		if valueAfterErr {
			r.violate("history", "value-after-error", fmt.Sprintf("a value was delivered after error %v %s", hist[firstErr].err, ctx))
			return
		}
		if len(errs) != 1 {
			r.violate("history", "eof-count", fmt.Sprintf("%d errors delivered (%v), expected exactly one io.EOF %s", len(errs), errs, ctx))
			return
		}
		if firstErr != len(hist)-1 {
			r.violate("history", "value-after-eof", "items were delivered after io.EOF "+ctx)
			return
		}
		if d := DiffRoots(want, got, EqExact); d != "" {
			r.violate("history", "documents", fmt.Sprintf("delivered documents differ from the stream's documents: %s %s", d, ctx))
			return
		}
	} else {
		// reader fault: delivered documents are a prefix, and the reader's error arrives before close
		if len(got) > len(want) {
			r.violate("history", "prefix", fmt.Sprintf("%d documents delivered but the stream holds %d %s", len(got), len(want), ctx))
			return
		}
		if d := DiffRoots(want[:len(got)], got, EqExact); d != "" {
			r.violate("history", "prefix", fmt.Sprintf("documents delivered before the reader error are not a prefix of the stream: %s %s", d, ctx))
			return
		}
		found := false
		for _, e := range errs {
			if errors.Is(e, faultErr) {
				found = true
			}
		}
		if !found {
			r.violate("history", "reader-error-lost", fmt.Sprintf("reader failed with %q but the errors delivered before close were %v %s", faultErr, errs, ctx))
			return
		}
	}
	// C16 clause: values still held expose the same documents after later chunks recycled pool buffers
	for _, d := range held {
		again, err := WalkInto(d.held)
		if err != nil {
			walkerFail(r, "held-value", "re-reading a held stream value at the end of the run", err)
			return
		}
		if diff := DiffRoots(d.roots, again, EqExact); diff != "" {
			r.violate("held-value", "changed", fmt.Sprintf("a value delivered by ParseNDStream changed while it was held: %s %s", diff, ctx))
			return
		}
		if out, err := MarshalRoot(d.held); err == nil {
			if res := RefParseND(out); res.OK {
				if diff := DiffRoots(d.roots, res.Roots, EqNumeric); diff != "" {
					r.violate("held-value", "changed-marshal", fmt.Sprintf("marshalling a held stream value no longer gives its documents: %s %s", diff, ctx))
					return
				}
			}
		}
	}
	r.stat("held_values_rechecked", len(held))
	r.stat("docs_delivered", len(got))
	d := digestRoots(got)
	r.fp.u64(d)
	r.fp.u64(uint64(len(errs)))
}

func isParseErr(err error) bool {
	return err != nil && bytes.HasPrefix([]byte(err.Error()), []byte("parsing input"))
}

// ---- -race sub-mode of C09: the same streams through the real ParseNDStream with real goroutines ---------------

type planReader struct {
	data []byte
	off  int
	plan []readResult // pre-drawn (n, err) answers; after the plan: everything that is left, then io.EOF
	k    int
}

func (p *planReader) Read(b []byte) (int, error) {
	rest := len(p.data) - p.off
	if p.k < len(p.plan) {
		a := p.plan[p.k]
		p.k++
		n := a.n
		if n > len(b) {
			n = len(b)
		}
		if n > rest {
			n = rest
		}
		copy(b, p.data[p.off:p.off+n])
		p.off += n
		if a.err != nil {
			return n, a.err
		}
		if n == rest && rest > 0 && p.k >= len(p.plan) {
			return n, nil
		}
		return n, nil
	}
	if rest == 0 {
		return 0, io.EOF
	}
	n := rest
	if n > len(b) {
		n = len(b)
	}
	copy(b, p.data[p.off:p.off+n])
	p.off += n
	return n, nil
}

// RunStreamRace: free-running ParseNDStream (no hook parks) with a pre-drawn read plan, drawn GOMAXPROCS, channel
// capacities and recycling; the race detector judges the memory, the history oracles judge the result.
func RunStreamRace(r *Run) {
	c := r.C
	setKernel(c.Intn("avx512", 2) == 1)
	kernelSwitching = false
	defer func() { kernelSwitching = true }()
	stream, want, desc := genStream(r)
	procs := []int{1, 2, 4, 8, 16}[c.Intn("gomaxprocs", 5)]
	capRes := c.Intn("capres", 9)
	recycle := c.Intn("recycle", 3)
	frag := c.Intn("frag", fragCount)
	if len(stream) > 4000 && frag <= fragThree {
		frag = fragLine + c.Intn("fragbig", 5)
	}
	faultAt := -1
	var faultErr error
	if c.Intn("fault", 3) == 0 {
		faultAt = c.Intn("faultat", len(stream)+1)
		faultErr = &errInjected{2}
	}
	// pre-draw the read plan
	var plan []readResult
	off := 0
	for off < len(stream) && len(plan) < 100000 {
		if faultAt >= 0 && off >= faultAt {
			break
		}
		n := drawFragment(c, frag, stream, off)
		if faultAt >= 0 && off+n > faultAt {
			n = faultAt - off
		}
		if n <= 0 {
			break
		}
		plan = append(plan, readResult{n, nil})
		off += n
	}
	if faultAt >= 0 {
		plan = append(plan, readResult{0, faultErr})
	} else if c.Intn("eofdata", 2) == 1 && len(plan) > 0 {
		plan[len(plan)-1].err = io.EOF
	}
	old := runtime.GOMAXPROCS(procs)
	defer runtime.GOMAXPROCS(old)
	res := make(chan simdjson.Stream, capRes)
	var reuse chan *simdjson.ParsedJson
	if recycle != 0 {
		reuse = make(chan *simdjson.ParsedJson, 1+c.Intn("capreuse", 8))
	}
	simdjson.ParseNDStream(&planReader{data: stream, plan: plan}, res, reuse)
	var got []*MV
	var errs []error
	k := 0
	for v := range res {
		if v.Error != nil {
			errs = append(errs, v.Error)
			continue
		}
		roots, err := WalkInto(v.Value)
		if err != nil {
			walkerFail(r, "W-into", "value delivered by ParseNDStream under -race", err)
			return
		}
		if len(errs) == 0 {
			got = append(got, roots...)
		}
		k++
		if reuse != nil && (recycle == 1 || k%2 == 0) {
			select {
			case reuse <- v.Value:
			default:
			}
		}
	}
	r.Res.Evals++
	r.Res.NonTrivial = len(plan) >= 3 || faultAt >= 0
	r.Res.Sample["stream"] = desc
	r.Res.Sample["cfg"] = fmt.Sprintf("race: GOMAXPROCS=%d cap(res)=%d recycle=%d frag=%s fault@%d reads=%d", procs, capRes, recycle, fragNames[frag], faultAt, len(plan))
	ctx := fmt.Sprintf("[%s; %s]", desc, r.Res.Sample["cfg"])
	if faultAt < 0 {
		if len(errs) != 1 || !errors.Is(errs[0], io.EOF) {
			r.violate("history", "eof-count", fmt.Sprintf("errors delivered: %v, expected exactly one io.EOF %s", errs, ctx))
			return
		}
		if d := DiffRoots(want, got, EqExact); d != "" {
			r.violate("history", "documents", fmt.Sprintf("delivered documents differ from the stream's documents: %s %s", d, ctx))
			return
		}
	} else {
		if len(got) > len(want) || DiffRoots(want[:len(got)], got, EqExact) != "" {
			r.violate("history", "prefix", "documents delivered before the reader error are not a prefix of the stream "+ctx)
			return
		}
		found := false
		for _, e := range errs {
			if errors.Is(e, faultErr) {
				found = true
			}
		}
		if !found {
			r.violate("history", "reader-error-lost", fmt.Sprintf("reader failed with %q but the errors delivered were %v %s", faultErr, errs, ctx))
			return
		}
	}
	r.fp.u64(digestRoots(got))
}
