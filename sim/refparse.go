package sim

import (
	"bytes"
	"math"
	"strconv"
	"unicode/utf8"
)

// Reference parser: recursive descent straight from RFC 8259. It shares no code with
// simdjson-go. Numbers follow the documented cascade int64 -> uint64 -> float64(+overflow flag).

// RefResult is the verdict of the reference parser.
type RefResult struct {
	OK        bool
	Roots     []*MV
	Ambiguous bool   // input touches a region where the specification allows either outcome
	Err       string // why it was rejected
	ErrOff    int
}

type refParser struct {
	b         []byte
	i         int
	ambiguous bool
	err       string
	errOff    int
	depth     int
}

func isWS(c byte) bool { return c == ' ' || c == '\t' || c == '\n' || c == '\r' }

func (p *refParser) fail(msg string) bool {
	if p.err == "" {
		p.err = msg
		p.errOff = p.i
	}
	return false
}

func (p *refParser) skipWS() {
	for p.i < len(p.b) && isWS(p.b[p.i]) {
		p.i++
	}
}

// RefParse parses a single JSON text whose root must be an object or array.
func RefParse(b []byte) RefResult {
	p := &refParser{b: b}
	p.skipWS()
	if p.i >= len(p.b) {
		return RefResult{Err: "empty input"}
	}
	// Non-JSON Unicode white space at the very edges is outside the claim.
	if edgeAmbiguous(b) {
		p.ambiguous = true
	}
	if c := p.b[p.i]; c != '{' && c != '[' {
		return RefResult{Err: "root is not an object or array", ErrOff: p.i, Ambiguous: p.ambiguous}
	}
	v, ok := p.value()
	if !ok {
		return RefResult{Err: p.err, ErrOff: p.errOff, Ambiguous: p.ambiguous}
	}
	p.skipWS()
	if p.i != len(p.b) {
		return RefResult{Err: "trailing content", ErrOff: p.i, Ambiguous: p.ambiguous}
	}
	return RefResult{OK: true, Roots: []*MV{v}, Ambiguous: p.ambiguous}
}

// edgeAmbiguous reports whether the input starts or ends with bytes that Go's
// bytes.TrimSpace would trim but JSON does not regard as white space.
func edgeAmbiguous(b []byte) bool {
	t := bytes.TrimSpace(b)
	j := bytes.Trim(b, " \t\r\n")
	return len(t) != len(j)
}

// RefParseND parses newline-delimited JSON: every non-blank line must be one document.
func RefParseND(b []byte) RefResult {
	res := RefResult{OK: true}
	if edgeAmbiguous(b) {
		res.Ambiguous = true
	}
	off := 0
	for off <= len(b) {
		end := bytes.IndexByte(b[off:], '\n')
		var line []byte
		if end < 0 {
			line = b[off:]
			end = len(b)
		} else {
			line = b[off : off+end]
			end = off + end
		}
		blank := true
		for _, c := range line {
			if !isWS(c) {
				blank = false
				break
			}
		}
		if !blank {
			r := RefParse(line)
			if r.Ambiguous {
				res.Ambiguous = true
			}
			if !r.OK {
				return RefResult{Err: r.Err, ErrOff: off + r.ErrOff, Ambiguous: res.Ambiguous}
			}
			res.Roots = append(res.Roots, r.Roots[0])
		}
		off = end + 1
	}
	if len(res.Roots) == 0 {
		return RefResult{Err: "no documents", Ambiguous: res.Ambiguous}
	}
	return res
}

func (p *refParser) value() (*MV, bool) {
	p.skipWS()
	if p.i >= len(p.b) {
		return nil, p.fail("unexpected end of input")
	}
	switch c := p.b[p.i]; {
	case c == '{':
		return p.object()
	case c == '[':
		return p.array()
	case c == '"':
		s, ok := p.str()
		if !ok {
			return nil, false
		}
		return &MV{K: KString, S: s}, true
	case c == 't':
		return p.lit("true", mvBool(true))
	case c == 'f':
		return p.lit("false", mvBool(false))
	case c == 'n':
		return p.lit("null", mvNull())
	case c == '-' || (c >= '0' && c <= '9'):
		return p.number()
	}
	return nil, p.fail("unexpected character")
}

func (p *refParser) lit(s string, v *MV) (*MV, bool) {
	if len(p.b)-p.i < len(s) || string(p.b[p.i:p.i+len(s)]) != s {
		return nil, p.fail("bad literal")
	}
	p.i += len(s)
	return v, true
}

func (p *refParser) object() (*MV, bool) {
	p.i++ // {
	m := &MV{K: KObject, Keys: [][]byte{}, Vals: []*MV{}}
	p.skipWS()
	if p.i < len(p.b) && p.b[p.i] == '}' {
		p.i++
		return m, true
	}
	for {
		p.skipWS()
		if p.i >= len(p.b) || p.b[p.i] != '"' {
			return nil, p.fail("expected object key")
		}
		k, ok := p.str()
		if !ok {
			return nil, false
		}
		p.skipWS()
		if p.i >= len(p.b) || p.b[p.i] != ':' {
			return nil, p.fail("expected colon")
		}
		p.i++
		v, ok := p.value()
		if !ok {
			return nil, false
		}
		m.Keys = append(m.Keys, k)
		m.Vals = append(m.Vals, v)
		p.skipWS()
		if p.i >= len(p.b) {
			return nil, p.fail("unterminated object")
		}
		if p.b[p.i] == ',' {
			p.i++
			continue
		}
		if p.b[p.i] == '}' {
			p.i++
			return m, true
		}
		return nil, p.fail("expected comma or closing brace")
	}
}

func (p *refParser) array() (*MV, bool) {
	p.i++ // [
	m := &MV{K: KArray, Arr: []*MV{}}
	p.skipWS()
	if p.i < len(p.b) && p.b[p.i] == ']' {
		p.i++
		return m, true
	}
	for {
		v, ok := p.value()
		if !ok {
			return nil, false
		}
		m.Arr = append(m.Arr, v)
		p.skipWS()
		if p.i >= len(p.b) {
			return nil, p.fail("unterminated array")
		}
		if p.b[p.i] == ',' {
			p.i++
			continue
		}
		if p.b[p.i] == ']' {
			p.i++
			return m, true
		}
		return nil, p.fail("expected comma or closing bracket")
	}
}

func hexVal(c byte) int {
	switch {
	case c >= '0' && c <= '9':
		return int(c - '0')
	case c >= 'a' && c <= 'f':
		return int(c-'a') + 10
	case c >= 'A' && c <= 'F':
		return int(c-'A') + 10
	}
	return -1
}

func (p *refParser) hex4() (int, bool) {
	if len(p.b)-p.i < 4 {
		return 0, false
	}
	v := 0
	for k := 0; k < 4; k++ {
		h := hexVal(p.b[p.i+k])
		if h < 0 {
			return 0, false
		}
		v = v<<4 | h
	}
	p.i += 4
	return v, true
}

func (p *refParser) str() ([]byte, bool) {
	p.i++ // opening quote
	out := []byte{}
	start := p.i
	for {
		if p.i >= len(p.b) {
			return nil, p.fail("unterminated string")
		}
		c := p.b[p.i]
		switch {
		case c == '"':
			if !utf8.Valid(p.b[start:p.i]) {
				p.ambiguous = true
			}
			p.i++
			return out, true
		case c < 0x20:
			return nil, p.fail("raw control character in string")
		case c == '\\':
			p.i++
			if p.i >= len(p.b) {
				return nil, p.fail("truncated escape")
			}
			e := p.b[p.i]
			p.i++
			switch e {
			case '"':
				out = append(out, '"')
			case '\\':
				out = append(out, '\\')
			case '/':
				out = append(out, '/')
			case 'b':
				out = append(out, '\b')
			case 'f':
				out = append(out, '\f')
			case 'n':
				out = append(out, '\n')
			case 'r':
				out = append(out, '\r')
			case 't':
				out = append(out, '\t')
			case 'u':
				cp, ok := p.hex4()
				if !ok {
					return nil, p.fail("bad \\u escape")
				}
				if cp >= 0xD800 && cp < 0xDC00 {
					// high surrogate: needs a low surrogate escape right after
					if len(p.b)-p.i >= 6 && p.b[p.i] == '\\' && p.b[p.i+1] == 'u' {
						save := p.i
						p.i += 2
						lo, ok := p.hex4()
						if ok && lo >= 0xDC00 && lo < 0xE000 {
							r := rune(0x10000 + (cp-0xD800)<<10 + (lo - 0xDC00))
							out = utf8.AppendRune(out, r)
							continue
						}
						p.i = save
					}
					p.ambiguous = true // ill-formed surrogate: outside the claim
					out = append(out, 0xEF, 0xBF, 0xBD)
				} else if cp >= 0xDC00 && cp < 0xE000 {
					p.ambiguous = true
					out = append(out, 0xEF, 0xBF, 0xBD)
				} else {
					out = utf8.AppendRune(out, rune(cp))
				}
			default:
				return nil, p.fail("bad escape")
			}
		default:
			out = append(out, c)
			p.i++
		}
	}
}

func (p *refParser) number() (*MV, bool) {
	s := p.i
	isFloat := false
	if p.b[p.i] == '-' {
		p.i++
	}
	if p.i >= len(p.b) {
		return nil, p.fail("lone minus")
	}
	switch c := p.b[p.i]; {
	case c == '0':
		p.i++
	case c >= '1' && c <= '9':
		for p.i < len(p.b) && p.b[p.i] >= '0' && p.b[p.i] <= '9' {
			p.i++
		}
	default:
		return nil, p.fail("bad number")
	}
	if p.i < len(p.b) && p.b[p.i] == '.' {
		isFloat = true
		p.i++
		n := 0
		for p.i < len(p.b) && p.b[p.i] >= '0' && p.b[p.i] <= '9' {
			p.i++
			n++
		}
		if n == 0 {
			return nil, p.fail("no digits after decimal point")
		}
	}
	if p.i < len(p.b) && (p.b[p.i] == 'e' || p.b[p.i] == 'E') {
		isFloat = true
		p.i++
		if p.i < len(p.b) && (p.b[p.i] == '+' || p.b[p.i] == '-') {
			p.i++
		}
		n := 0
		for p.i < len(p.b) && p.b[p.i] >= '0' && p.b[p.i] <= '9' {
			p.i++
			n++
		}
		if n == 0 {
			return nil, p.fail("no digits in exponent")
		}
	}
	// A number must be followed by a structural character, white space or the end.
	if p.i < len(p.b) {
		switch p.b[p.i] {
		case ',', '}', ']', ':', ' ', '\t', '\n', '\r':
		default:
			return nil, p.fail("garbage after number")
		}
	}
	lit := string(p.b[s:p.i])
	if !isFloat {
		if v, err := strconv.ParseInt(lit, 10, 64); err == nil {
			return mvInt(v), true
		}
		if lit[0] != '-' {
			if v, err := strconv.ParseUint(lit, 10, 64); err == nil {
				return mvUint(v), true
			}
		}
	}
	f, err := strconv.ParseFloat(lit, 64)
	if err != nil || math.IsInf(f, 0) || math.IsNaN(f) {
		p.i = s
		return nil, p.fail("number not finite as float64")
	}
	return &MV{K: KFloat, F: f, Ovf: !isFloat}, true
}
