#!/usr/bin/env python3
"""Generates MANIFEST.json from the table below (kept as code so that it stays consistent with ./check)."""
import json, os, subprocess
VERIF = os.path.dirname(os.path.abspath(__file__))

NA = {
 "C01": "Accept/reject is a pure function of the input bytes and two option bits: no schedule, clock, fault or history for a simulator to vary (needs grammar-directed enumeration/differential testing, another technique). Two C01 defects that the C07/C05 simulations ran into (-01.5 and \\u12 4 accepted) were fixed, see known_findings.jsonl.",
 "C02": "Pure function from accepted bytes to exposed value; no schedule/fault/history dimension. The simulators compare every workload document with an independent reference model, but that samples inputs, it does not decide C02.",
 "C03": "Pure function of a number literal; nothing to schedule, fault or order.",
 "C04": "Pure function of string bytes and alignment; alignment is input shape, not a schedule or fault.",
 "C06": "Differential statement about two pure functions (AVX2 vs AVX-512 kernels) of the same input; the kernel is a configuration drawn per run in every engine, not a fault or schedule to explore.",
 "C08": "Differential statement between two pure functions of the input (ParseND vs per-line Parse); no schedule/fault/history.",
 "C12": "Relational property of pure read-only functions over one parsed document; no schedule, fault or history.",
 "C18": "Pure function float64 -> text; nothing to schedule, fault or order.",
}

CLAIMED = {
 "C07": dict(engine="pipe", cat="exploration", ref="§5.1, §6 C07",
   technique="deterministic simulation: seeded cooperative scheduling of the stage-1 producer and stage-2 consumer at hand-off hooks (testing/synctest quiescence), ring monitors + reference model",
   text="Seeded exploration of producer/consumer interleavings of the real two-stage pipeline over its 16-slot ring and bounded channel: every execution is one seed; monitors state the property (no slot acquired while in flight or held, FIFO hand-off with stable content, one terminator sent last, termination, no goroutine left) and the outcome is compared with an independent reference parser and with a free-running execution. Sampling, not proof: it reaches the lagging-consumer/lagging-producer schedules the Go runtime almost never produces.",
   note="Trusted: testing/synctest quiescence detection (go1.26.8), the reference parser in /verif/sim (self-tested against encoding/json), hook placement (add-only, reviewed). Interleaving is controlled at hook granularity, not at instruction level."),
}

def main():
    hooks_commit = subprocess.run(["git", "-C", "/repo", "log", "--format=%h", "--grep", "^verif hooks", "-n", "5"], capture_output=True, text=True).stdout.split()
    checks = []
    for pid, c in sorted(CLAIMED.items()):
        checks.append(dict(property_id=pid,
            quick_cmd="./check run %s --tier quick" % pid,
            thorough_cmd="./check run %s --tier thorough" % pid,
            evidence_file="/verif/evidence/%s.json" % pid,
            replay_cmd_template="./check replay {path}",
            engine=c["engine"],
            level_claimed=dict(category=c["cat"], text=c["text"], design_ref=c["ref"]),
            level_note=c["note"], technique=c["technique"]))
    pending = json.load(open(os.path.join(VERIF, "pending.json"))) if os.path.exists(os.path.join(VERIF, "pending.json")) else {}
    na = [dict(property_id=k, reason=v) for k, v in sorted(NA.items())]
    for k, v in sorted(pending.items()):
        if k not in CLAIMED:
            na.append(dict(property_id=k, reason=v))
    m = dict(version=1,
        setup_cmd="./check build",
        hooks=dict(guard="verif (Go build tag)", enable="go1.26.8 test -c -tags verif (harness module /verif/sim with replace github.com/minio/simdjson-go => /repo)",
                   baseline_off_cmd="cd /repo && GOFLAGS=-mod=mod GOPROXY=off GOSUMDB=off go test -vet=off -count=1 -timeout 25m ./...",
                   source_commits=hooks_commit, add_only=True),
        engines=[dict(name="pipe", path="/verif/sim/engine_pipe.go", serves_properties=["C07", "C05", "C15", "C17"], kind_free_text="two-stage pipeline under a seeded cooperative schedule (E1)"),
                 dict(name="stream", path="/verif/sim/engine_stream.go", serves_properties=["C09", "C16", "C17"], kind_free_text="ParseNDStream with simulated reader, chunk completion order, consumer and recycler (E2)"),
                 dict(name="hist", path="/verif/sim/engine_hist.go", serves_properties=["C10", "C11", "C13", "C14", "C15", "C16", "C17"], kind_free_text="operation histories on long-lived objects against a reference model (E3)"),
                 dict(name="fault", path="/verif/sim/engine_fault.go", serves_properties=["C05", "C19"], kind_free_text="fault enumeration on stored artefacts: blobs and documents (E4)"),
                 dict(name="conc", path="/verif/sim/engine_conc.go", serves_properties=["C20"], kind_free_text="N caller goroutines on independent objects: deterministic pool-tenancy mode and -race parallel-step mode (E5)")],
        checks=checks,
        notes="Technique family: deterministic simulation with fault injection. See DESIGN.md. Exit codes of every command: 0 held, 1 violation (VIOLATION line), 2 build/harness trouble.",
        not_applicable=na)
    json.dump(m, open(os.path.join(VERIF, "MANIFEST.json"), "w"), indent=1)

if __name__ == "__main__":
    main()
