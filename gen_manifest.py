#!/usr/bin/env python3
"""Generates MANIFEST.json from the table below (kept as code so that it stays consistent with ./check)."""
import json, os, subprocess
VERIF = os.path.dirname(os.path.abspath(__file__))

NA = {
 "C01": "Accept/reject is a pure function of the input bytes and two option bits: no schedule, clock, fault or history for a simulator to vary (needs grammar-directed enumeration/differential testing, another technique). Two C01 defects that the C07/C05 simulations ran into (-01.5 and \\u12 4 accepted) were fixed, see known_findings.jsonl.",
 "C02": "Pure function from accepted bytes to exposed value; no schedule/fault/history dimension. The simulators compare every workload document with an independent reference model, but that samples inputs, it does not decide C02.",
 "C03": "Pure function of a number literal; nothing to schedule, fault or order.",
 "C04": "Pure function of string bytes and alignment; alignment is input shape, not a schedule or fault.",
 "C06": "Differential statement about two pure functions (AVX2 vs AVX-512 kernels) of the same input; the kernel is a configuration drawn per run in every engine, not a fault or schedule to explore.",
 "C08": "Differential statement between two pure functions of the input (ParseND vs per-line Parse); no schedule/fault/history.",
 "C12": "Relational property of pure read-only functions over one parsed document; no schedule, fault or history.",
 "C18": "Pure function float64 -> text; nothing to schedule, fault or order.",
}

CLAIMED = {
 "C20": dict(engine="conc", cat="exploration", ref="§5.5, §6 C20",
   technique="deterministic simulation of N caller goroutines: mode D parks workers between operations and at pool-tenancy hooks (Get / before Put / after Put) inside Serialize/Deserialize under a seeded scheduler in one synctest bubble; mode R releases seeded sets of operations together in a -race build (with traversal and codec storms); a goroutine blocked on something outside the simulation is resolved deterministically by re-executing the seed free-running from the stalling step",
   text="Mode D decides 'each goroutine gets exactly the results it would get alone / pools never mix data' deterministically at operation and pool-tenancy granularity (a worker is suspended while it holds or has just returned a pooled codec while others run through the same pool); mode R decides 'free of data races' with the race detector over seeded sets of overlapping operations. Every operation's result is compared with the same program run alone and with the reference model. Programs include runs with more workers than CPUs (24-64) and codec-heavy mixes; a goroutine that blocks on package-level state (semaphore, mutex) is reported only if it stays blocked after every goroutine the simulator held inside a library call has been let go (cross-caller deadlock), never merely because the cooperative scheduler held the releasing party.",
   note="Go gives no control over instruction-level interleaving: inside a parallel step of mode R the overlap is real and the verdict is the race detector's happens-before analysis; mode R replays are statistical (sync.Pool drops items randomly under -race), mode D replays are exact."),
 "C05": dict(engine="fault", cat="fault_enumeration", ref="§5.4, §6 C05",
   technique="deterministic simulation with fault injection: enumeration of truncations / substitutions / token edits / random bytes of documents parsed from guard-paged simulator memory; large cases under seeded pipeline schedules (deadlock = no runnable token)",
   text="Fault enumeration over stored documents: every truncation offset and a substitution alphabet at every offset for small bases (exhaustive per base), boundary-biased faults for large ones, adversarial nesting and dense structurals; each case must return (result xor error) without panic, without touching the guard pages around the input, without a stuck stage (sync-path full-channel monitor, pipeline schedules with deadlock/leak detection) and every traversal/lookup/marshal call on a result must terminate within its step cap. Results the parser returned must also be traversable (the structural walks and MarshalJSON get through; the Elements of the top-level object marshal twice alike), and a reused object's string buffer is placed against a guard page so that a store past its capacity faults.",
   note="Trusted: guard pages only catch page-crossing reads (inputs are placed flush against the guard); walkers' step caps define 'terminates'; crashes on library goroutines are caught by the parent process and replayed in a fresh child."),
 "C09": dict(engine="stream", cat="exploration", ref="§5.2, §6 C09",
   technique="deterministic simulation: real ParseNDStream in a synctest bubble with a simulated reader (seeded fragmentation, zero reads, data+EOF, injected reader errors), seeded chunk-parser completion order, consumer and recycler; history oracles; a quarter of the workers run the -race build with a pre-drawn read plan",
   text="Seeded exploration of reader fragmentations, reader faults at drawn byte offsets, chunk-parser completion orders, consumer speeds, channel capacities, recycling policies and GOMAXPROCS for the real ParseNDStream; the recorded history must be exactly the stream's documents then one io.EOF then close (no fault), or a prefix plus the reader's error before close (fault), with deadlock/livelock/leak detection.",
   note="Trusted: synctest quiescence; reference parser for 'the stream's documents'; the 10 MiB chunk size is shipped as is (streams > 10 MiB only in the thorough tier)."),
 "C10": dict(engine="hist", cat="exploration", ref="§5.3, §6 C10",
   technique="deterministic simulation of operation histories (Set*/DeleteElems/SetNull) against a reference model; marshalled text judged by an independent reference parser and encoding/json",
   text="Seeded histories of in-place edits; after every operation the tape is marshalled from the root and from restricted inner iterators (NextElement, AdvanceIter, FindKey, Elements, Array), through MarshalJSON and through the ...Buffer variants with destinations that already hold bytes (output must be appended, earlier bytes intact), and the text must be valid JSON, denote the model document (order, byte-equal strings, numbers equal as the property defines) and be a fixed point of parse+marshal; non-finite floats must yield an error.",
   note="Documents holding a negative-zero float are excluded from the fixed-point clause only (C03+C18 force '-0' to re-parse as integer 0)."),
 "C11": dict(engine="hist", cat="exploration", ref="§5.3, §6 C11",
   technique="deterministic simulation of Serializer histories (mode switches, reused serializers and destinations, failed calls on damaged blobs) inside a synctest bubble where codec goroutines are scheduler tokens, against a reference model, plus cross-build recovery: blobs written by the asm build are deserialized by a noasm build in a fresh process",
   text="Seeded histories over 1-3 reused Serializers and reused destinations, all four modes on either side, fresh / NDJSON / edited / deleted-member tapes incl. overflow-flag floats and multi-generation round trips; every deserialized tape must expose the model document with exact number types and flags and obey the tape format; a sample of blobs is re-read by the noasm build.",
   note="String dedup depends on the process-random hash seed: blob bytes are never compared, only what they deserialize to."),
 "C13": dict(engine="hist", cat="exploration", ref="§5.3, §6 C13",
   technique="deterministic simulation of Set* histories (allowed and disallowed calls as fault operations) against a reference model with a full read-back battery after every step",
   text="Seeded histories of 1-12 Set* calls at drawn positions (any depth, containers for SetNull), repeated replacement with other types and sizes, both string modes; after each operation eight independent read paths (flat walk, Advance with PeekNext/PeekNextTag and NextElement/NextElementBytes, AdvanceIter/Object.Parse, ForEach with and without key filters, Interface, FindKey/FindPath/FindElement, MarshalJSON, serialize round trip into a fresh or reused destination) and the typed accessors on every scalar (own type, documented conversions, documented errors) must expose the model in which exactly that position changed; disallowed calls must fail and change nothing.",
   note="Navigation to the edited position itself uses two independent API paths (flat AdvanceInto walk / user-style API descent)."),
 "C14": dict(engine="hist", cat="exploration", ref="§5.3, §6 C14",
   technique="deterministic simulation of deletion histories: every member subset for containers of <= 6 members (drawn mask), fn/onlyKeys/nil modes, followed by further deletions and replacements; callbacks and all listed read APIs compared with a reference model",
   text="Seeded histories of Object/Array DeleteElems with drawn member subsets (mask over all subsets for small containers), with fn, onlyKeys, both or nil, nested containers, then further deletions and Set*; callbacks must visit each member once in order with its own key/value and afterwards every API the property lists (ForEach also with key filters, the serialize round trip also into a reused destination) must expose the model document; documents include nesting up to 2000 levels.",
   note="Key filters are only used on objects with unique keys (the property's own restriction)."),
 "C15": dict(engine="hist+pipe", cat="exploration", ref="§5.3, §6 C15",
   technique="deterministic simulation of call histories on reused ParsedJson/Serializer/destination objects, the whole history inside one synctest bubble under a seeded pipeline schedule; differential against the reference verdict/model of a fresh call",
   text="Seeded histories of Parse/ParseND (valid, stage-1-failing, stage-2-failing, both sides of 8 KiB, either string mode) with reuse of objects whose past includes successes, failures, edits, clones and deserializations, plus Deserialize into reused destinations and Serializers across mode changes; every call's outcome and exposed document must equal what the same call gives on fresh objects; ring monitors stay armed.",
   note="Channel residue after a failed call is recorded as a probe, not an oracle (lazy draining would be legal)."),
 "C16": dict(engine="hist+stream", cat="exploration", ref="§5.3, §5.2, §6 C16",
   technique="deterministic simulation with fault injection on the caller's buffer: scribble/recycle the input at a drawn instant, clone and edit, read back against the model; ParseNDStream values held across pool recycling re-verified",
   text="Seeded histories: parse from simulator-owned memory, overwrite or reuse that memory at a drawn later instant (zeros, random, shift, another document), clone (nil or reused destination), edit original and clones; default mode must be unaffected by the overwrite, no-copy mode must equal the model while the buffer is intact, clones and originals must stay equal to their own models; values delivered by ParseNDStream and held by the consumer must be unchanged at the end of the run after later chunks recycled pool buffers.",
   note="With copying disabled and the buffer overwritten nothing is claimed (the object is dropped from the oracle)."),
 "C17": dict(engine="pipe+stream+hist", cat="exploration", ref="§4, §6 C17",
   technique="invariant monitoring in deterministic simulation: an executable statement of the documented tape format checked on every tape produced under pipeline schedules, by ParseNDStream chunk parsers and by Deserialize of fresh/edited tapes into fresh/reused destinations",
   text="The tape-format invariant (root pairs, matching and nested scopes, string flag/offset/length in range, two-word numbers, no undocumented tags, NOP runs landing on the next live entry for deserialized tapes) is the only alarm-raising oracle of a mixed batch of the pipe, stream and history engines.",
   note="Coverage of input shapes is whatever the workloads generate; the invariant checker is written from README/property text."),
 "C19": dict(engine="fault", cat="fault_enumeration", ref="§5.4, §6 C19",
   technique="deterministic fault injection on stored bytes: exhaustive truncations / single-bit flips / byte substitutions of small blobs in all four modes, framing-aware tag/value/varint/block-type edits via an independent framing walker (decompress-mutate-recompress), synthetic tag streams, splices, random bytes, double faults; a call that does not return is judged as a bubble deadlock",
   text="Fault enumeration over serialized blobs: for every base blob one fault plan is run to completion (every truncation length, every single-bit flip, or a substitution alphabet at every offset for small blobs; framing-aware edits that keep the container intact; section splices of two blobs; random bytes; sampled double faults; synthetic tag streams whose float-with-flags entries carry raw tape words). Deserialize (fresh or stale reused destination, any reader mode) must return error or result without panic, and every traversal/marshal/bulk accessor on a result - including a model-free lookup walk (FindKey/FindPath/Elements.Lookup through reused destinations in every object) and ForEach+AdvanceIter to the end of each root - must terminate without panic. Replay files carry the literal blob and, for a reused destination, the blobs it received before.",
   note="Blobs whose declared sizes (container varints, zstd frame content/window size) exceed 16 MiB are excluded by the independent framing walker, as the property allows, and counted. Replay files carry the literal mutated blob and, for a reused destination, that destination's exact content before the failing call. Complete traversals of accepted results are bounded per run (8 million tape words, then every eighth result); Deserialize itself is judged on every blob."),

 "C07": dict(engine="pipe", cat="exploration", ref="§5.1, §6 C07",
   technique="deterministic simulation: seeded cooperative scheduling of the stage-1 producer and stage-2 consumer at hand-off hooks (testing/synctest quiescence), ring monitors + reference model; a quarter of the workers run the -race build free-running at drawn GOMAXPROCS",
   text="Seeded exploration of producer/consumer interleavings of the real two-stage pipeline over its 16-slot ring and bounded channel: every execution is one seed; monitors state the property (no slot acquired while in flight or held, FIFO hand-off with stable content, one terminator sent last, termination, no goroutine left) and the outcome is compared with an independent reference parser and with a free-running execution. Sampling, not proof: it reaches the lagging-consumer/lagging-producer schedules the Go runtime almost never produces.",
   note="Trusted: testing/synctest quiescence detection (go1.26.8), the reference parser in /verif/sim (self-tested against encoding/json), hook placement (add-only, reviewed). Interleaving is controlled at hook granularity, not at instruction level."),
}

def main():
    hooks_commit = subprocess.run(["git", "-C", "/repo", "log", "--format=%h", "--grep", "^verif hooks", "-n", "5"], capture_output=True, text=True).stdout.split()
    checks = []
    for pid, c in sorted(CLAIMED.items()):
        checks.append(dict(property_id=pid,
            quick_cmd="./check run %s --tier quick" % pid,
            thorough_cmd="./check run %s --tier thorough" % pid,
            evidence_file="/verif/evidence/%s.json" % pid,
            replay_cmd_template="./check replay {path}",
            engine=c["engine"],
            level_claimed=dict(category=c["cat"], text=c["text"], design_ref=c["ref"]),
            level_note=c["note"], technique=c["technique"]))
    pending = json.load(open(os.path.join(VERIF, "pending.json"))) if os.path.exists(os.path.join(VERIF, "pending.json")) else {}
    na = [dict(property_id=k, reason=v) for k, v in sorted(NA.items())]
    for k, v in sorted(pending.items()):
        if k not in CLAIMED:
            na.append(dict(property_id=k, reason=v))
    m = dict(version=1,
        setup_cmd="./check build",
        hooks=dict(guard="verif (Go build tag)", enable="go1.26.8 test -c -tags verif (harness module /verif/sim with replace github.com/minio/simdjson-go => /repo)",
                   baseline_off_cmd="cd /repo && GOFLAGS=-mod=mod GOPROXY=off GOSUMDB=off go test -vet=off -count=1 -timeout 25m ./...",
                   source_commits=hooks_commit, add_only=True),
        engines=[dict(name="pipe", path="/verif/sim/engine_pipe.go", serves_properties=["C07", "C05", "C15", "C17"], kind_free_text="two-stage pipeline under a seeded cooperative schedule (E1)"),
                 dict(name="stream", path="/verif/sim/engine_stream.go", serves_properties=["C09", "C16", "C17"], kind_free_text="ParseNDStream with simulated reader, chunk completion order, consumer and recycler (E2)"),
                 dict(name="hist", path="/verif/sim/engine_hist.go", serves_properties=["C10", "C11", "C13", "C14", "C15", "C16", "C17"], kind_free_text="operation histories on long-lived objects against a reference model (E3)"),
                 dict(name="fault", path="/verif/sim/engine_fault.go", serves_properties=["C05", "C19"], kind_free_text="fault enumeration on stored artefacts: blobs and documents (E4)"),
                 dict(name="conc", path="/verif/sim/engine_conc.go", serves_properties=["C20"], kind_free_text="N caller goroutines on independent objects: deterministic pool-tenancy mode and -race parallel-step mode (E5)")],
        checks=checks,
        notes="Technique family: deterministic simulation with fault injection. See DESIGN.md. Exit codes of every command: 0 held, 1 violation (VIOLATION line), 2 build/harness trouble.",
        not_applicable=na)
    json.dump(m, open(os.path.join(VERIF, "MANIFEST.json"), "w"), indent=1)

if __name__ == "__main__":
    main()
