#!/bin/bash
# Soak on the unchanged tree with orchestrator seeds other than the default: any exit != 0 is printed.
# usage: tools/soak.sh <tier> <workers> <budget> <seed> [<seed> ...]
cd "$(dirname "$0")/.."
TIER="$1"; W="$2"; B="$3"; shift 3
for s in "$@"; do
  for p in C05 C07 C09 C10 C11 C13 C14 C15 C16 C17 C19 C20; do
    VERIF_SEED=$s ./check run $p --tier "$TIER" --workers "$W" --budget "$B" > soak-$s-$p.out 2> soak-$s-$p.err
    rc=$?
    echo "seed=$s prop=$p tier=$TIER exit=$rc $(grep -E "^$p (quick|thorough):" soak-$s-$p.err | tail -1)"
    if [ $rc -ne 0 ]; then grep -E "VIOLATION|signature:|detail:|trouble|KNOWN" soak-$s-$p.out soak-$s-$p.err | head -20; fi
  done
done
