#!/bin/bash
# Re-runs the registered check of the property each seeded change breaks (from its stored patch) and prints a summary.
# usage: tools/seed_rerun_all.sh [budget]
cd "$(dirname "$0")/.."
B="${1:-25}"
for d in seeded/*/; do
  id=$(basename "$d")
  prop=$(python3 -c "import json;print(json.load(open('$d/meta.json'))['breaks'])")
  tools/seed_intake.py "$id" /nonexistent "$prop" --props "$prop" --budget "$B" 2>&1 | grep against
done
python3 tools/gen_sensitivity_table.py
