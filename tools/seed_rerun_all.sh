#!/bin/bash
# Re-runs, for every seeded change, one registered check that caught it (the property of its id if that one caught it,
# else the first of caught_by) from the stored patch on a scratch copy of /repo, and prints one line per change.
# usage: tools/seed_rerun_all.sh [budget] [id-glob]
cd "$(dirname "$0")/.."
B="${1:-25}"
G="${2:-*}"
for d in seeded/$G/; do
  id=$(basename "$d")
  prop=$(python3 - "$d" "$id" <<'PY'
import json,sys
m=json.load(open(sys.argv[1]+"/meta.json")); cb=m.get("caught_by") or []
own=sys.argv[2].split("-")[0]
print(own if own in cb else (cb[0] if cb else ""))
PY
)
  if [ -z "$prop" ]; then echo "$id: no check is recorded as catching it (see meta.json)"; continue; fi
  tools/seed_intake.py "$id" /nonexistent "$prop" --props "$prop" --budget "$B" --skip-verify 2>&1 | grep against
done
