#!/usr/bin/env python3
"""Prints the task text handed to an independent sub-agent (it sees this text and its worktree, nothing of /verif).

  tools/agent_prompt.py break  <Cxx> <worktree> "<theme>"
  tools/agent_prompt.py benign <Cxx> <worktree> "<theme>"
"""
import json, sys

kind, pid, wt, theme = sys.argv[1], sys.argv[2], sys.argv[3], sys.argv[4]
prop = None
for l in open(__file__.rsplit("/tools/", 1)[0] + "/properties.jsonl"):
    p = json.loads(l)
    if p["id"] == pid:
        prop = p
assert prop

ENVTXT = """Environment: the sandbox has no network. In every shell call first run
`export GOFLAGS=-mod=mod GOPROXY=off GOSUMDB=off` and use the default `go` (1.23). Work ONLY inside your worktree
`%s` (a detached git worktree of the library github.com/minio/simdjson-go, a pure-Go port of simdjson with AVX2/AVX-512
assembly; this machine has AVX-512). Do not touch /repo, do not read or touch /verif, do not commit, do not create branches.
The files sim_hooks_off.go / sim_hooks_verif.go and the one-line `simHook(...)`/`simProbe(...)` calls are inert instrumentation
(no-ops in a normal build): leave them exactly as they are and keep every such call at the statement it is attached to.

The existing test suite: `go test -vet=off -count=1 -json -timeout 25m ./... > /tmp/<something>.json`. NOTE: the test binary
panics in TestNdjsonCountWhere2 (it wants to download a file), which is expected; what counts is the set of tests reported with
"Action":"pass" BEFORE that: exactly 30 test names (sub-tests included) pass on the unchanged tree, and the same 30 must still pass
with your change. Compare the set of passing test names before and after your change.""" % wt

PROPTXT = """The property (this is all you get; read the code it talks about in your worktree):

  id: %s
  title: %s
  statement: %s
  quantifier: %s
""" % (prop["id"], prop["title"], prop["statement"], prop["quantifier"]["text"])

if kind == "break":
    print("""You are helping to test a verification harness for a Go library. Your job is to write ONE realistic change to the library
that BREAKS the property below while the library still compiles and the existing test suite still passes, plus a demonstration.

%s

%s
What to produce, all inside your worktree:
1. The change itself, made directly in the library's .go / .s files (left uncommitted in the worktree). It must look like something
   a maintainer could plausibly have written (a refactor, an optimisation, a hardening, a clean-up, a 'fix'), not sabotage, and be
   small (typically 1-25 changed lines, possibly at two cooperating sites that each look fine alone).
2. `seeded_demo_test.go` (package simdjson, in the worktree root) with a single test `TestSeededDemo` that FAILS with your change
   and PASSES without it (check both: `go test -vet=off -count=1 -run '^TestSeededDemo$' .`, then WITHOUT git stash (never use git stash: it is shared between worktrees and other agents work in parallel) - save your diff with
   `git diff -- . ':!seeded_demo_test.go' ':!SEEDED.md' ':!seeded.patch' > seeded.patch`, `git apply -R seeded.patch`, run the demo,
   `git apply seeded.patch` again). The demonstration must show a violation of the property as stated (not of some other expectation).
3. `seeded.patch` as produced by the command above (your final state must have the change applied).
4. `SEEDED.md`: (1) the change and why it breaks the property, (2) exactly what is needed for it to manifest, (3) what you ran and saw
   (baseline pass set with the change, the demo with and without).

Requirements for the change:
* It must need something SPECIFIC to manifest: a particular interleaving, a fault or error at a particular point, a multi-step sequence
  of operations, an unusual input shape/size/boundary, or two cooperating sites. Ordinary use (parse a typical document, read it) must
  still work. A change that any simple smoke test exposes at once is not wanted.
* It must break THIS property as stated, observably through the public API (wrong result, wrong error/no error, panic, hang, data race,
  deadlock, out-of-bounds access...), on the asm (amd64) build on this machine.
* Theme for this round, to steer you away from the obvious: %s
* Do not weaken or remove an existing feature wholesale, do not special-case magic input values, no time-, random- or environment-
  dependent triggers, no new dependencies.

When done, reply with a short report: files changed, the mechanism in two sentences, what is needed to manifest, and the demo results
(with / without the change), and whether all 30 baseline tests still pass.""" % (ENVTXT, PROPTXT, theme))
else:
    print("""You are helping to test a verification harness for a Go library for FALSE ALARMS. Your job is to write ONE realistic change to
the library that is clearly visible in behaviour-neutral ways (internal structure, constants, buffer sizes, ordering of independent
work, error wording where nothing promises it, allocation strategy, goroutine structure) but that PRESERVES the property below for
every input, schedule and history, while the library still compiles and the existing test suite still passes.

%s

%s
What to produce, all inside your worktree:
1. The change itself, made directly in the library's .go files (left uncommitted). It should be the kind of thing a maintainer might do:
   a refactor, a retuned constant, a different but equally correct algorithm, a restructured loop, a different buffer growth policy,
   an extra (correct) validation, a renamed/rewrapped internal error, splitting or merging functions, pooling or un-pooling a buffer
   correctly. 10-80 changed lines. It must NOT change anything the property (or the library's documentation) promises.
2. (Never use git stash: it is shared between worktrees and other agents work in parallel; to test without your change use `git apply -R seeded.patch` and `git apply seeded.patch`.) `seeded.patch`: `git diff -- . ':!seeded_demo_test.go' ':!SEEDED.md' ':!seeded.patch' > seeded.patch` (final state has the change applied).
3. `SEEDED.md`: what you changed, and your argument why the property still holds for every input/schedule/history (be rigorous: think about
   boundaries, reuse of objects, error paths, concurrency). Also list what observable-but-unpromised details changed (e.g. error text,
   capacity of returned slices, number of goroutines, internal channel capacity, order of unrelated side effects).
4. Optionally `seeded_demo_test.go` with `TestSeededDemo` that exercises the changed code and passes both with and without the change.

Theme for this round: %s

When done, reply with a short report: files changed, what changed in two sentences, why it is property-preserving, what unpromised
details differ, and whether all 30 baseline tests still pass.""" % (ENVTXT, PROPTXT, theme))
