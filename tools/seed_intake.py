#!/usr/bin/env python3
"""Intake of a seeded (property-breaking) change written by an independent sub-agent.

  tools/seed_intake.py <seed-id> <worktree> <property> [--props C07,C15] [--budget 25] [--tier quick]

1. Confirms, in the agent's worktree, that the change builds, that the 30 baseline tests still pass with it,
   that the demonstration fails with it and passes without it.
2. Copies patch.diff, the demonstration and the agent's notes to /verif/seeded/<seed-id>/.
3. Runs the registered checks of the listed properties against a scratch copy of /repo with the patch applied
   (VERIF_REPO/VERIF_OUT; /repo itself is never touched) and records everything in meta.json.
"""
import argparse, json, os, re, shutil, subprocess, sys, tempfile, time

ENV = dict(os.environ, GOFLAGS="-mod=mod", GOPROXY="off", GOSUMDB="off", GOTOOLCHAIN="local")
VERIF = os.path.dirname(os.path.dirname(os.path.abspath(__file__)))


def sh(cmd, cwd, timeout=1800):
    p = subprocess.run(cmd, cwd=cwd, env=ENV, shell=True, stdout=subprocess.PIPE, stderr=subprocess.STDOUT, text=True, errors="replace", timeout=timeout)
    return p.returncode, p.stdout


def baseline(cwd):
    rc, out = sh("go test -vet=off -count=1 -json -timeout 25m ./... 2>&1", cwd)
    passed, failed = set(), set()
    for l in out.splitlines():
        try:
            e = json.loads(l)
        except Exception:
            continue
        if e.get("Test") and e.get("Action") == "pass":
            passed.add(e["Test"])
        if e.get("Test") and e.get("Action") == "fail":
            failed.add(e["Test"])
    return passed, failed


def main():
    ap = argparse.ArgumentParser()
    ap.add_argument("id")
    ap.add_argument("worktree")
    ap.add_argument("prop")
    ap.add_argument("--props", default="")
    ap.add_argument("--budget", type=float, default=25)
    ap.add_argument("--tier", default="quick")
    ap.add_argument("--skip-verify", action="store_true")
    ap.add_argument("--benign", action="store_true", help="property-preserving change: kept under /verif/benign/<id>/, every check must stay silent")
    a = ap.parse_args()
    wt = a.worktree
    dst = os.path.join(VERIF, "benign" if a.benign else "seeded", a.id)
    os.makedirs(dst, exist_ok=True)
    have_wt = os.path.isdir(wt)
    meta = dict(id=a.id, property=a.prop)
    if not have_wt:
        # worktree already removed: re-run the checks on the stored patch only
        a.skip_verify = True
        patch = os.path.join(dst, "patch.diff")
    else:
        meta["worktree_base"] = subprocess.run(["git", "-C", wt, "rev-parse", "--short", "HEAD"], capture_output=True, text=True, errors="replace").stdout.strip()
        patch = os.path.join(wt, "seeded.patch")
        # always regenerate the patch from the worktree state (library files only)
        rc, out = sh("git diff -- . ':!seeded_demo_test.go' ':!SEEDED.md' ':!seeded.patch'", wt)
        if out.strip():
            open(patch, "w").write(out)
    if not os.path.exists(patch) or not open(patch).read().strip():
        print("no patch in", wt)
        sys.exit(3)
    demo = os.path.join(wt, "seeded_demo_test.go")
    if not a.skip_verify:
        rc, out = sh("go build ./...", wt)
        meta["builds"] = rc == 0
        with_p, with_f = baseline(wt)
        stable = set(json.load(open("/root/.vp/BASELINE.json"))["stable_pass"])
        names = set(s.split("::", 1)[1] for s in stable)
        # the demo test itself is expected to fail; every baseline test must still pass
        missing = sorted(n for n in names if n not in with_p)
        meta["baseline_with_change"] = dict(passed=len(names) - len(missing), of=len(names), missing=missing)
        if a.benign:
            meta["confirmed"] = bool(meta["builds"] and not missing)
            print("verify (benign): builds=%s baseline_missing=%s" % (meta["builds"], missing))
        else:
            rc1, out1 = sh("go test -vet=off -count=1 -run '^TestSeededDemo$' . 2>&1 | tail -40", wt, timeout=900)
            demo_fails_with = "FAIL" in out1 and "ok  " not in out1.splitlines()[-1]
            # revert / re-apply with the patch itself (git stash is shared between worktrees)
            rcr, outr = sh("git apply -R seeded.patch", wt)
            rc2, out2 = sh("go test -vet=off -count=1 -run '^TestSeededDemo$' . 2>&1 | tail -15", wt, timeout=900)
            if rcr == 0:
                sh("git apply seeded.patch", wt)
            else:
                out2 = "could not revert the patch: " + outr
            demo_passes_without = bool(re.search(r"^ok\s", out2, re.M))
            meta["demo"] = dict(fails_with_change=demo_fails_with, passes_without_change=demo_passes_without,
                                output_with=out1[-1500:], output_without=out2[-400:])
            ok = meta["builds"] and not missing and demo_fails_with and demo_passes_without
            meta["confirmed"] = ok
            print("verify: builds=%s baseline_missing=%s demo_fails_with=%s demo_passes_without=%s" % (meta["builds"], missing, demo_fails_with, demo_passes_without))
    if have_wt:
        shutil.copyfile(patch, os.path.join(dst, "patch.diff"))
    if os.path.exists(demo):
        shutil.copyfile(demo, os.path.join(dst, "seeded_demo_test.go.txt"))
    if os.path.exists(os.path.join(wt, "SEEDED.md")):
        shutil.copyfile(os.path.join(wt, "SEEDED.md"), os.path.join(dst, "AGENT_NOTES.md"))
    # run our checks against a scratch copy with the patch applied
    props = [p for p in (a.props.split(",") if a.props else [a.prop]) if p]
    results = {}
    for prop in props:
        w = tempfile.mkdtemp(prefix="seedrun-")
        shutil.copytree("/repo", os.path.join(w, "repo"), symlinks=True)
        rc, out = sh("git apply %s" % os.path.join(dst, "patch.diff"), os.path.join(w, "repo"))
        if rc != 0:
            rc, out = sh("patch -p1 < %s" % os.path.join(dst, "patch.diff"), os.path.join(w, "repo"))
        if rc != 0:
            results[prop] = dict(error="patch does not apply to /repo HEAD: " + out[-500:])
            shutil.rmtree(w, ignore_errors=True)
            continue
        env = dict(ENV, VERIF_REPO=os.path.join(w, "repo"), VERIF_OUT=os.path.join(w, "out"))
        t0 = time.time()
        p = subprocess.run([os.path.join(VERIF, "check"), "run", prop, "--tier", a.tier, "--budget", str(a.budget)], cwd=VERIF, env=env,
                           stdout=subprocess.PIPE, stderr=subprocess.PIPE, text=True, errors="replace")
        sigs = re.findall(r"signature: (.*)", p.stderr)
        details = re.findall(r"detail: (.*)", p.stderr)
        results[prop] = dict(exit=p.returncode, wall_s=round(time.time() - t0, 1), violations=p.stdout.count("VIOLATION property="),
                             signatures=sigs[:4], details=[d[:400] for d in details[:2]],
                             summary=[l for l in p.stderr.splitlines() if re.match(r"^C\d+ (quick|thorough):", l)][:1])
        # keep one replay file as a specimen
        rp = os.path.join(w, "out", "replays")
        if os.path.isdir(rp):
            files = sorted(os.listdir(rp))
            if files:
                shutil.copyfile(os.path.join(rp, files[0]), os.path.join(dst, "replay-%s.json" % prop))
        print("%s against %s: exit %d %s" % (prop, a.id, p.returncode, sigs[:2]))
        if p.returncode not in (0, 1):
            print(p.stderr[-3000:])
        shutil.rmtree(w, ignore_errors=True)
    # keep the latest result per property from earlier intake runs
    mp0 = os.path.join(dst, "meta.json")
    if os.path.exists(mp0):
        try:
            for pr, rr in (json.load(open(mp0)).get("checks") or {}).items():
                results.setdefault(pr, rr)
        except Exception:
            pass
    meta["checks"] = results
    meta["caught_by"] = sorted(p for p, r in results.items() if r.get("exit") == 1)
    if a.benign:
        meta["alarms"] = meta.pop("caught_by")
        meta["trouble"] = sorted(p for p, r in results.items() if r.get("exit") not in (0, 1))
    meta["ran"] = "tools/seed_intake.py %s (scratch copy of /repo + patch.diff, VERIF_REPO/VERIF_OUT; ./check run <prop> --tier %s --budget %s)" % (a.id, a.tier, a.budget)
    meta["at"] = time.strftime("%Y-%m-%dT%H:%M:%SZ", time.gmtime())
    old = {}
    mp = os.path.join(dst, "meta.json")
    if os.path.exists(mp):
        old = json.load(open(mp))
        hist = old.get("history", [])
        hist.append({k: old.get(k) for k in ("checks", "caught_by", "at")})
        meta["history"] = hist
        for k in ("needs", "breaks", "confirmed", "demo", "baseline_with_change", "builds", "source", "note", "worktree_base"):
            if k not in meta and k in old:
                meta[k] = old[k]
    json.dump(meta, open(mp, "w"), indent=1)


if __name__ == "__main__":
    main()
