#!/bin/bash
# usage: tools/mutant_run.sh <patch-or-sed-script.sh|patch.diff> <prop> [budget] [tier]
# Applies a change to a scratch copy of /repo (outside /repo and /verif), runs ./check against it, removes the copy.
set -u
PATCH="$1"; PROP="$2"; BUDGET="${3:-20}"; TIER="${4:-quick}"
W=$(mktemp -d /tmp/mut.XXXXXX)
cp -r /repo "$W/repo"
cd "$W/repo"
case "$PATCH" in
  *.sh) bash "$PATCH" || { echo "MUTANT SCRIPT FAILED"; rm -rf "$W"; exit 3; } ;;
  *) git apply "$PATCH" || patch -p1 < "$PATCH" || { echo "PATCH FAILED"; rm -rf "$W"; exit 3; } ;;
esac
export GOFLAGS=-mod=mod GOPROXY=off GOSUMDB=off GOTOOLCHAIN=local
if ! go build ./... ; then echo "MUTANT DOES NOT BUILD"; rm -rf "$W"; exit 3; fi
cd /verif
VERIF_REPO="$W/repo" VERIF_OUT="$W/out" ./check run "$PROP" --tier "$TIER" --budget "$BUDGET"
RC=$?
echo "mutant $PATCH on $PROP: exit $RC"
if [ -n "${KEEP_REPLAYS:-}" ]; then mkdir -p "$KEEP_REPLAYS"; cp -r "$W/out/replays/." "$KEEP_REPLAYS/" 2>/dev/null; fi
rm -rf "$W"
exit $RC
